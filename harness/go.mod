module verif/harness

go 1.23.0

require (
	github.com/ProtonMail/go-crypto v1.2.0
	github.com/blakesmith/ar v0.0.0-20190502131153-809d4375e1fb
	github.com/goreleaser/nfpm/v2 v2.0.0
	github.com/klauspost/compress v1.18.0
	github.com/ulikunitz/xz v0.5.12
	gopkg.in/yaml.v3 v3.0.1
)

require (
	dario.cat/mergo v1.0.1 // indirect
	github.com/AlekSi/pointer v1.2.0 // indirect
	github.com/Masterminds/goutils v1.1.1 // indirect
	github.com/Masterminds/semver/v3 v3.3.1 // indirect
	github.com/Masterminds/sprig/v3 v3.3.0 // indirect
	github.com/cavaliergopher/cpio v1.0.1 // indirect
	github.com/cloudflare/circl v1.6.0 // indirect
	github.com/cyphar/filepath-securejoin v0.4.1 // indirect
	github.com/emirpasic/gods v1.18.1 // indirect
	github.com/go-git/gcfg v1.5.1-0.20230307220236-3a3c6141e376 // indirect
	github.com/go-git/go-billy/v5 v5.6.2 // indirect
	github.com/go-git/go-git/v5 v5.14.0 // indirect
	github.com/gobwas/glob v0.2.3 // indirect
	github.com/golang/groupcache v0.0.0-20241129210726-2c02b8208cf8 // indirect
	github.com/google/rpmpack v0.6.1-0.20240329070804-c2247cbb881a // indirect
	github.com/google/uuid v1.6.0 // indirect
	github.com/goreleaser/chglog v0.7.0 // indirect
	github.com/goreleaser/fileglob v1.3.0 // indirect
	github.com/huandu/xstrings v1.5.0 // indirect
	github.com/jbenet/go-context v0.0.0-20150711004518-d14ea06fba99 // indirect
	github.com/kevinburke/ssh_config v1.2.0 // indirect
	github.com/klauspost/pgzip v1.2.6 // indirect
	github.com/mitchellh/copystructure v1.2.0 // indirect
	github.com/mitchellh/reflectwalk v1.0.2 // indirect
	github.com/pjbgf/sha1cd v0.3.2 // indirect
	github.com/sergi/go-diff v1.3.2-0.20230802210424-5b0b94c5c0d3 // indirect
	github.com/shopspring/decimal v1.4.0 // indirect
	github.com/skeema/knownhosts v1.3.1 // indirect
	github.com/spf13/cast v1.7.1 // indirect
	github.com/xanzy/ssh-agent v0.3.3 // indirect
	gitlab.com/digitalxero/go-conventional-commit v1.0.7 // indirect
	golang.org/x/crypto v0.36.0 // indirect
	golang.org/x/exp v0.0.0-20240719175910-8a7402abbf56 // indirect
	golang.org/x/net v0.38.0 // indirect
	golang.org/x/sys v0.31.0 // indirect
	gopkg.in/warnings.v0 v0.1.2 // indirect
)

replace github.com/goreleaser/nfpm/v2 => /repo
