package main

import (
	"bufio"
	"bytes"
	"crypto/sha256"
	"encoding/hex"
	"encoding/json"
	"fmt"
	"math/rand"
	"os"
	"path"
	"path/filepath"
	"sort"
	"strings"
	"sync"
	"time"
	"unicode/utf8"
)

// ---------------------------------------------------------------------------
// trace writer (ndjson, one line per specification action)
//
// Encoding rules (measured limits of TLC's Json module): no JSON null, no
// floats, integers below 2^31, every event kind always carries its full key
// set.  ev() panics on a nil value so that a violation of the rules is an
// infrastructure error, never a verdict.
// ---------------------------------------------------------------------------

type M = map[string]any

type Trace struct {
	mu    sync.Mutex
	w     []*bufio.Writer
	f     []*os.File
	lines int
	idx   *bufio.Writer // index: case id -> concrete input (for replay files)
	idxf  *os.File
}

// NewTrace opens <prefix>.<i>.ndjson for i < shards.  Every shard is a
// complete trace of its own (validated by its own TLC process).
func NewTrace(prefix string, shards int) *Trace {
	if shards < 1 {
		shards = 1
	}
	t := &Trace{}
	for i := 0; i < shards; i++ {
		f, err := os.Create(fmt.Sprintf("%s.%d.ndjson", prefix, i))
		must(err)
		t.f = append(t.f, f)
		t.w = append(t.w, bufio.NewWriterSize(f, 1<<20))
	}
	g, err := os.Create(prefix + ".index")
	must(err)
	t.idx = bufio.NewWriterSize(g, 1<<20)
	t.idxf = g
	return t
}

func checkVal(v any, path string) {
	switch x := v.(type) {
	case nil:
		panic("trace: null at " + path)
	case float32, float64:
		panic("trace: float at " + path)
	case int:
		if x >= 1<<31 || x <= -(1<<31) {
			panic(fmt.Sprintf("trace: int out of range at %s: %d", path, x))
		}
	case int64:
		if x >= 1<<31 || x <= -(1<<31) {
			panic(fmt.Sprintf("trace: int64 out of range at %s: %d", path, x))
		}
	case M:
		for k, e := range x {
			checkVal(e, path+"."+k)
		}
	case []M:
		for i, e := range x {
			checkVal(e, fmt.Sprintf("%s[%d]", path, i))
		}
	case []any:
		for i, e := range x {
			checkVal(e, fmt.Sprintf("%s[%d]", path, i))
		}
	}
}

// Emit writes a block of events atomically to the shard selected by key (the
// events of one case stay contiguous even when cases run in parallel).
func (t *Trace) Emit(key int, events []M) {
	var buf bytes.Buffer
	enc := json.NewEncoder(&buf)
	enc.SetEscapeHTML(false)
	for _, e := range events {
		checkVal(e, "ev")
		must(enc.Encode(e))
	}
	if key < 0 {
		key = -key
	}
	out := asciiOnly(buf.Bytes())
	buf.Reset()
	buf.Write(out)
	t.mu.Lock()
	defer t.mu.Unlock()
	t.w[key%len(t.w)].Write(buf.Bytes())
	t.lines += len(events)
}

// asciiOnly rewrites non-ASCII runes of an encoded JSON document as \uXXXX
// escapes (surrogate pairs above the BMP) so that the trace file is pure ASCII.
func asciiOnly(b []byte) []byte {
	ascii := true
	for _, c := range b {
		if c >= 0x80 {
			ascii = false
			break
		}
	}
	if ascii {
		return b
	}
	var out bytes.Buffer
	for _, r := range string(b) {
		switch {
		case r < 0x80:
			out.WriteByte(byte(r))
		case r < 0x10000:
			fmt.Fprintf(&out, "\\u%04x", r)
		default:
			r -= 0x10000
			fmt.Fprintf(&out, "\\u%04x\\u%04x", 0xd800+(r>>10), 0xdc00+(r&0x3ff))
		}
	}
	return out.Bytes()
}

func (t *Trace) Index(id int, concrete any) {
	b, err := json.Marshal(M{"id": id, "input": concrete})
	must(err)
	t.mu.Lock()
	defer t.mu.Unlock()
	t.idx.Write(b)
	t.idx.WriteByte('\n')
}

func (t *Trace) Close() {
	for i := range t.w {
		t.Emit(i, []M{{"ev": "eof"}})
		must(t.w[i].Flush())
		must(t.f[i].Close())
	}
	must(t.idx.Flush())
	must(t.idxf.Close())
}

func must(err error) {
	if err != nil {
		panic(err)
	}
}

// asciiJSON keeps strings TLC-safe: the Json module reads UTF-8 fine, but we
// keep anything outside printable ASCII out of event payloads by hex-tagging.
func safeStr(s string) string {
	ok := utf8.ValidString(s)
	if ok {
		for _, r := range s {
			if r < 0x20 && r != '\n' && r != '\t' || r == 0x7f || r == utf8.RuneError {
				ok = false
				break
			}
		}
	}
	if ok {
		return s
	}
	return "hex:" + hex.EncodeToString([]byte(s))
}

// ---------------------------------------------------------------------------
// parallel case runner
// ---------------------------------------------------------------------------

func parallel(n, workers int, fn func(i int)) {
	if workers < 1 {
		workers = 1
	}
	var wg sync.WaitGroup
	ch := make(chan int)
	for w := 0; w < workers; w++ {
		wg.Add(1)
		go func() {
			defer wg.Done()
			for i := range ch {
				fn(i)
			}
		}()
	}
	for i := 0; i < n; i++ {
		ch <- i
	}
	close(ch)
	wg.Wait()
}

// ---------------------------------------------------------------------------
// source trees
// ---------------------------------------------------------------------------

// Node is one node of an abstract source tree; P is relative to the root.
type Node struct {
	P    string `json:"p"`
	Kind string `json:"kind"` // file | dir | link
	Mode int    `json:"mode"` // permission bits on disk
	Mt   int    `json:"mt"`   // mtime (epoch seconds) on disk
	Size int    `json:"size"`
	Link string `json:"link"` // literal target for links
	Tk   string `json:"tk"`   // what the link resolves to: file | dir | none | ""
	Cid  string `json:"cid"`  // content id (sha256 hex prefix) of a file's bytes
	data []byte
}

func (n Node) M() M {
	return M{"p": n.P, "kind": n.Kind, "mode": n.Mode, "mt": n.Mt, "size": n.Size, "link": n.Link, "tk": n.Tk, "cid": n.Cid, "rt": ""}
}

func cidOf(b []byte) string {
	h := sha256.Sum256(b)
	return "c" + hex.EncodeToString(h[:8])
}

// fileBytes generates deterministic content of the given size.
func fileBytes(seed int64, size int) []byte {
	r := rand.New(rand.NewSource(seed))
	b := make([]byte, size)
	r.Read(b)
	return b
}

// Materialise creates the tree under root.  Directories are created first,
// then files and links; modes and mtimes are applied last, deepest first, so
// that creating children does not disturb a parent's mtime.
func Materialise(root string, nodes []Node) {
	sorted := append([]Node(nil), nodes...)
	sort.Slice(sorted, func(i, j int) bool { return sorted[i].P < sorted[j].P })
	must(os.MkdirAll(root, 0o755))
	for _, n := range sorted {
		p := filepath.Join(root, n.P)
		switch n.Kind {
		case "dir":
			must(os.MkdirAll(p, 0o755))
		case "file":
			must(os.MkdirAll(filepath.Dir(p), 0o755))
			must(os.WriteFile(p, n.data, 0o644))
		case "link":
			must(os.MkdirAll(filepath.Dir(p), 0o755))
			must(os.Symlink(strings.Replace(n.Link, "$ROOT/", root+"/", 1), p)) // ("$ROOT/": an absolute link into the tree itself)
		}
	}
	for i := len(sorted) - 1; i >= 0; i-- {
		n := sorted[i]
		p := filepath.Join(root, n.P)
		if n.Kind == "link" {
			continue // lchmod/lutimes not portable; link attributes are not observed
		}
		must(os.Chmod(p, os.FileMode(n.Mode)))
		mt := time.Unix(int64(n.Mt), 0)
		must(os.Chtimes(p, mt, mt))
	}
}

func nodesM(nodes []Node) []M {
	out := make([]M, 0, len(nodes))
	isFile := map[string]bool{}
	for _, n := range nodes {
		if n.Kind == "file" {
			isFile[n.P] = true
		}
	}
	for _, n := range nodes {
		m := n.M()
		// rt: where a symbolic link leads when it (directly) names a regular file of the tree - a projection of the file
		// system the code under test reads through os.Stat
		if n.Kind == "link" && n.Link != "" && !strings.HasPrefix(n.Link, "/") {
			if t := path.Clean(path.Join(path.Dir(n.P), n.Link)); isFile[t] {
				m["rt"] = t
			}
		}
		out = append(out, m)
	}
	return out
}

func relTo(root, p string) string {
	if p == root {
		return "."
	}
	if strings.HasPrefix(p, root+"/") {
		return p[len(root)+1:]
	}
	return p
}

func sha256hex(b []byte) string {
	h := sha256.Sum256(b)
	return hex.EncodeToString(h[:])
}

func envInt(name string, def int) int {
	v := os.Getenv(name)
	if v == "" {
		return def
	}
	var x int
	if _, err := fmt.Sscanf(v, "%d", &x); err != nil {
		return def
	}
	return x
}

func firstN(s string, n int) string {
	if len(s) > n {
		return s[:n]
	}
	return s
}
