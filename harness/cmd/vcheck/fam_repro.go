package main

// Family "repro" (C07): one case is built again and again while everything
// that must not matter changes - repetition, GOMAXPROCS, another process,
// time zone, relative vs absolute source paths and working directory, wall
// clock (one real 1.1 s tick between two rounds).  Each change is logged as an
// action of spec/Repro.tla, each build with the SHA-256 of its bytes.

import (
	"bytes"
	"crypto/sha256"
	"encoding/hex"
	"fmt"
	"math/rand"
	"os"
	"os/exec"
	"path/filepath"
	"runtime"
	"strconv"
	"strings"
	"time"
)

// changeSources edits the source tree in place: every regular file under src/ grows by a line, every directory under src/ gets
// a new file; all with fixed modification times (the sources' metadata is part of what the output may depend on, the clock not).
func changeSources(root string) {
	t := time.Unix(1410000000, 0)
	var dirs, regs []string
	filepath.Walk(filepath.Join(root, "scripts"), func(p string, fi os.FileInfo, err error) error {
		if err == nil && fi.Mode().IsRegular() {
			regs = append(regs, p) // the maintainer scripts are sources too
		}
		return nil
	})
	filepath.Walk(filepath.Join(root, "src"), func(p string, fi os.FileInfo, err error) error {
		if err != nil {
			return nil
		}
		switch {
		case fi.IsDir():
			dirs = append(dirs, p)
		case fi.Mode().IsRegular():
			regs = append(regs, p)
		}
		return nil
	})
	for _, p := range regs {
		if f, err := os.OpenFile(p, os.O_APPEND|os.O_WRONLY, 0); err == nil {
			f.WriteString("# changed\n")
			f.Close()
			os.Chtimes(p, t, t)
		}
	}
	for _, d := range dirs {
		p := filepath.Join(d, "zz-added-by-verif.txt")
		if os.WriteFile(p, []byte("added\n"), 0o644) == nil {
			os.Chtimes(p, t, t)
		}
	}
	for _, d := range dirs {
		os.Chtimes(d, t, t)
	}
}

func famRepro(tr *Trace, scratch string, seed int64, tier string, nfpmBin string) M {
	os.Unsetenv("SOURCE_DATE_EPOCH")
	rng := rand.New(rand.NewSource(seed*31 + 5))
	ncases := 10
	reps := 3
	if tier == "thorough" {
		ncases, reps = 120, 10
	}
	ncases = envInt("VERIF_REPRO_CASES", ncases)
	type rc struct {
		pc   *PkgCase
		evs  []M
		yAbs string
		yRel string
	}
	var cases []*rc
	for i := 0; i < ncases; i++ {
		var pc *PkgCase
		for try := 0; ; try++ { // only configurations every packager accepts
			pc = genPkgCase(rng, i+1, "payload", scratch, tier)
			Materialise(pc.Root, pc.Nodes)
			ok := true
			if cfg, err := parseCfg(pc.Cfg.YAML(pc.Root)); err != nil {
				ok = false
			} else {
				for _, f := range allFormats {
					if _, _, err := buildFormat(&cfg, f); err != nil {
						ok = false
					}
				}
			}
			os.RemoveAll(pc.Root)
			if i == 3 && pc.Cfg.NoGlob { // case 3 gets glob entries below: it needs a tree whose names are not glob syntax
				ok = false
			}
			if ok || try > 200 {
				break
			}
		}
		c := pc.Cfg
		// the fixed package mtime: in the past, the epoch itself, and in the FUTURE (a date the build clock has not reached)
		c.Pmt = []int{1600000000, 1234567890, 0, 2100000000}[i%4]
		c.PmtZero = c.Pmt == 0
		if i%5 == 4 {
			c.Maintainer = "" // whatever stands in for an unset maintainer does so in every build
		}

		c.UseSDE = i%4 == 1
		if i == 5 { // a reproducible-build date after January 2038 (it does not fit 31 bits)
			c.Pmt = 4102444800
		}
		if i%3 == 1 { // the same relation more than once, several distinct ones: stated in the order written, every build
			c.Depends = []string{"a", "b", "a", "c", "d >= 1", "b", "e", "f"}
			c.Provides, c.Conflicts, c.Replaces = []string{"p1", "p2", "p1", "p3"}, []string{"x", "y", "x", "z"}, []string{"r", "s", "r", "t"}
			c.Recommends, c.Suggests = []string{"m", "n", "m", "o"}, []string{"u", "v", "u", "w"}
			c.DebPredepends, c.IpkPredepends = []string{"pd", "pe", "pd", "pf"}, []string{"ia", "ib", "ia", "ic"}
		}
		if i%3 == 1 || i == 0 { // several alternatives with different link names; a ghost (no bytes, but a time like any entry)
			c.IpkAlts = []Alt{{100, "/usr/bin/tool", "/usr/bin/t-one"}, {50, "/usr/bin/tool", "/usr/bin/t-two"}, {10, "/usr/bin/tool", "/usr/bin/t-three"}, {5, "/usr/bin/tool", "/usr/bin/t-four"}}
			c.Entries = append(c.Entries, Entry{Type: "ghost", Dst: "/var/log/repro-ghost.log"}, Entry{Type: "ghost", Dst: "/var/lib/repro/ghost-with-mode", Fi: Fi{Mode: 0o600}, HasFi: true})
		}
		if i == 7 { // an architecture no table knows: passed on as it is, the same in every build
			c.Arch = "arm64v8.0"
		}
		c.RpmBuildHost = "buildhost.example"
		// at least two maintainer scripts, a changelog now and then
		pc.Nodes = append(pc.Nodes[:0:0], pc.Nodes...)
		var keep []Node
		for _, n := range pc.Nodes {
			if len(n.P) < 7 || n.P[:7] != "scripts" {
				keep = append(keep, n)
			}
		}
		pc.Nodes = append(keep, addScripts(rng, c, scriptSlots[:4+rng.Intn(11)])...)
		if i%2 == 0 {
			c.Changelog = []ChEntry{{"1.2.3", 1500000000, "Jane Doe <jane@example.org>", []string{"note"}}}
			if i%4 == 0 { // an entry without a date: whatever stands in for it, it is not the clock
				c.Changelog = append(c.Changelog, ChEntry{"1.2.2", 0, "Jane Doe <jane@example.org>", []string{"undated"}})
			}
		}
		if i == 2 || (tier == "thorough" && i%10 == 2) { // larger than any compressor block / 1 MiB per-CPU split
			b := fileBytes(int64(i), 1<<21+777)
			pc.Nodes = append(pc.Nodes, Node{P: "src/large.bin", Kind: "file", Mode: 0o644, Mt: 1400000000, Size: len(b), data: b, Cid: cidOf(b)})
			c.Entries = append(c.Entries, Entry{Type: "file", Src: "src/large.bin", Dst: "/opt/repro/large.bin"})
		}
		if i == 3 { // globs relative to the working directory itself, matching dot files and a dot directory
			for _, dn := range []struct{ p, body string }{{".env", "A=1\n"}, {".cache/x", "x\n"}, {".cache/.y", "y\n"}} {
				b := []byte(dn.body)
				pc.Nodes = append(pc.Nodes, Node{P: dn.p, Kind: "file", Mode: 0o644, Mt: 1400000001, Size: len(b), data: b, Cid: cidOf(b)})
			}
			pc.Nodes = append(pc.Nodes, Node{P: ".cache", Kind: "dir", Mode: 0o755, Mt: 1400000001})
			c.Entries = append(c.Entries, Entry{Type: "file", Src: ".e*", Dst: "/opt/dots"}, Entry{Type: "file", Src: ".c*", Dst: "/opt/dots2"})
			c.NoGlob = false
		}
		if i%5 == 2 { // a tree that contains an ABSOLUTE symbolic link into itself (and one out of it): shipped as it is, however the tree is referred to
			b := []byte("inner\n")
			pc.Nodes = append(pc.Nodes, Node{P: "abstree", Kind: "dir", Mode: 0o755, Mt: 1400000003}, Node{P: "abstree/inner.txt", Kind: "file", Mode: 0o644, Mt: 1400000003, Size: len(b), data: b, Cid: cidOf(b)},
				Node{P: "abstree/into", Kind: "link", Link: "$ROOT/abstree/inner.txt"}, Node{P: "abstree/out", Kind: "link", Link: "/etc/hostname"})
			c.Entries = append(c.Entries, Entry{Type: "tree", Src: "abstree", Dst: "/opt/repro/abstree"})
		}
		if i%5 == 1 { // destinations that differ only in letter case: their relative order is part of the bytes
			for _, nm := range []string{"casepair-upper.txt", "casepair-lower.txt"} {
				b := []byte(nm + "\n")
				pc.Nodes = append(pc.Nodes, Node{P: nm, Kind: "file", Mode: 0o644, Mt: 1400000002, Size: len(b), data: b, Cid: cidOf(b)})
			}
			c.Entries = append(c.Entries, Entry{Type: "file", Src: "casepair-upper.txt", Dst: "/usr/share/doc/repro/README"}, Entry{Type: "file", Src: "casepair-lower.txt", Dst: "/usr/share/doc/repro/readme"},
				Entry{Type: "file", Src: "casepair-upper.txt", Dst: "/usr/share/doc/repro/Makefile"}, Entry{Type: "file", Src: "casepair-lower.txt", Dst: "/usr/share/doc/repro/makefile"})
		}
		Materialise(pc.Root, pc.Nodes)
		if c.Changelog != nil {
			must(os.WriteFile(filepath.Join(pc.Root, "changelog.yaml"), []byte(c.ChangelogYAML()), 0o644))
		}
		r := &rc{pc: pc, yAbs: c.YAML(pc.Root), yRel: strings.ReplaceAll(c.YAML("@@REL@@"), "@@REL@@/", "")}
		must(os.WriteFile(filepath.Join(pc.Root, "nfpm-abs.yaml"), []byte(r.yAbs), 0o644))
		must(os.WriteFile(filepath.Join(pc.Root, "nfpm-rel.yaml"), []byte(r.yRel), 0o644))
		r.evs = []M{{"ev": "case", "id": pc.ID, "fam": "repro", "pmt": min(c.Pmt, 2147483647), "sde": c.UseSDE}} // (TLC's integers are 32 bits wide; the field is informational)
		cases = append(cases, r)
	}
	builds := 0
	hash := func(b []byte) string { s := sha256.Sum256(b); return hex.EncodeToString(s[:]) }
	inproc := func(r *rc, note string) {
		c := r.pc.Cfg
		if c.UseSDE {
			os.Setenv("SOURCE_DATE_EPOCH", strconv.Itoa(c.Pmt))
			defer os.Unsetenv("SOURCE_DATE_EPOCH")
		}
		for _, f := range r.pc.Formats {
			cfg, err := parseCfg(r.yAbs)
			msg, h := "", ""
			if err == nil {
				var b []byte
				b, _, err = buildFormat(&cfg, f)
				h = hash(b)
			}
			if err != nil {
				msg = safeStr(err.Error())
			}
			builds++
			r.evs = append(r.evs, M{"ev": "build", "fmt": f, "how": "in-process " + note, "sha256": h, "err": msg})
		}
	}
	cross := func(r *rc, tz, style string) {
		c := r.pc.Cfg
		for _, f := range r.pc.Formats {
			out := filepath.Join(scratch, fmt.Sprintf("out-%d.%s", r.pc.ID, f))
			cfgFile := filepath.Join(r.pc.Root, "nfpm-abs.yaml")
			cwd := scratch
			if style == "rel" {
				cfgFile, cwd = "nfpm-rel.yaml", r.pc.Root
			}
			cmd := exec.Command(nfpmBin, "package", "-f", cfgFile, "-p", f, "-t", out)
			cmd.Dir = cwd
			env := []string{"TZ=" + tz, "PATH=" + os.Getenv("PATH"), "HOME=" + os.Getenv("HOME")}
			if c.UseSDE {
				env = append(env, "SOURCE_DATE_EPOCH="+strconv.Itoa(c.Pmt))
			}
			cmd.Env = env
			var so bytes.Buffer
			cmd.Stdout, cmd.Stderr = &so, &so
			err := cmd.Run()
			msg, h := "", ""
			if err != nil {
				msg = safeStr(fmt.Sprintf("%v: %s", err, so.String()))
			} else if b, e := os.ReadFile(out); e == nil {
				h = hash(b)
			}
			os.Remove(out)
			builds++
			r.evs = append(r.evs, M{"ev": "build", "fmt": f, "how": "cross-process TZ=" + tz + " " + style, "sha256": h, "err": msg})
		}
	}
	round := func(second bool) {
		for _, r := range cases {
			if second {
				r.evs = append(r.evs, M{"ev": "envchange", "what": "tick", "value": "", "n": 0})
			}
			n := reps
			if r.pc.Cfg.Arch == "arm64v8.0" { // a value looked up in tables: more draws of whatever order a table is walked in
				n += 24
			}
			for i := 0; i < n; i++ {
				inproc(r, "repeat")
			}
			if !second {
				old := runtime.GOMAXPROCS(0)
				for _, n := range []int{1, 2, 4, 16} {
					runtime.GOMAXPROCS(n)
					r.evs = append(r.evs, M{"ev": "envchange", "what": "procs", "value": "", "n": n})
					inproc(r, "GOMAXPROCS="+strconv.Itoa(n))
				}
				runtime.GOMAXPROCS(old)
			}
			if nfpmBin != "" {
				r.evs = append(r.evs, M{"ev": "envchange", "what": "process", "value": "", "n": 0})
				tzs := []string{"UTC", "Asia/Kolkata", "America/St_Johns"}
				if second {
					tzs = tzs[1:2]
				}
				for _, tz := range tzs {
					r.evs = append(r.evs, M{"ev": "envchange", "what": "tz", "value": tz, "n": 0})
					cross(r, tz, "abs")
				}
				r.evs = append(r.evs, M{"ev": "envchange", "what": "style", "value": "rel", "n": 0})
				cross(r, "UTC", "rel")
				r.evs = append(r.evs, M{"ev": "envchange", "what": "style", "value": "abs", "n": 0})
			}
		}
	}
	round(false)
	time.Sleep(1100 * time.Millisecond) // one real tick of the wall clock: second-granular stamps would differ
	round(true)
	// Repro!ChangeSources: the referenced sources change (every file grows, every directory gets a new file - globs, trees and
	// directory sources find it); this process has built from the old sources, a fresh process has not: both must agree
	for _, r := range cases {
		changeSources(r.pc.Root)
		r.evs = append(r.evs, M{"ev": "envchange", "what": "sources", "value": "", "n": 0})
		inproc(r, "after the sources changed")
		if nfpmBin != "" {
			r.evs = append(r.evs, M{"ev": "envchange", "what": "process", "value": "", "n": 0})
			cross(r, "UTC", "abs")
			inproc(r, "after the sources changed, again")
		}
	}
	for _, r := range cases {
		r.evs = append(r.evs, M{"ev": "endcase"})
		tr.Emit(r.pc.ID, r.evs)
		os.RemoveAll(r.pc.Root)
	}
	return M{"cases": len(cases), "builds": builds, "repetitions": reps}
}
