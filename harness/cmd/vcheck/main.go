package main

// vcheck: conformance driver.  `vcheck <family> --out trace.ndjson ...` drives
// the real nfpm code (built from /repo's working tree via the replace
// directive) and writes one ndjson event per specification action.

import (
	"encoding/json"
	"flag"
	"fmt"
	"os"
	"runtime"
)

func main() {
	if len(os.Args) < 2 {
		fmt.Fprintln(os.Stderr, "usage: vcheck <family> [flags]")
		os.Exit(2)
	}
	fam := os.Args[1]
	fs := flag.NewFlagSet(fam, flag.ExitOnError)
	out := fs.String("out", "trace.ndjson", "trace file")
	scratch := fs.String("scratch", "", "scratch directory (required)")
	seed := fs.Int64("seed", 1, "seed")
	tier := fs.String("tier", "quick", "quick|thorough")
	workers := fs.Int("workers", runtime.NumCPU(), "parallel cases")
	replay := fs.String("replay", "", "replay file")
	shards := fs.Int("shards", 1, "trace shards")
	profile := fs.String("profile", "payload", "generation profile")
	repo := fs.String("repo", "/repo", "checkout of nfpm under test (key files)")
	nfpmBin := fs.String("nfpm", "", "built nfpm binary (CLI runs)")
	behaviours := fs.String("behaviours", "", "behaviours exported by TLC, one JSON object per line (replayed on the real code)")
	fs.Parse(os.Args[2:])
	if *scratch == "" {
		fmt.Fprintln(os.Stderr, "--scratch required")
		os.Exit(2)
	}
	_ = replay
	os.Setenv("TZ", "UTC")
	tr := NewTrace(*out, *shards)
	var stats M
	repoDir = *repo
	switch fam {
	case "selftest":
		if err := decoderSelfTest(*scratch); err != nil {
			fmt.Fprintln(os.Stderr, "DECODER SELF-TEST FAILED:", err)
			os.Exit(3)
		}
		fmt.Println("decoder self-test ok")
		stats = M{"cases": 0}
	case "plan":
		stats = famPlan(tr, *scratch, *seed, *tier, *workers)
	case "schema":
		auxBehaviours = *behaviours
		stats = famSchema(tr, *scratch, *seed, *tier, *repo, *nfpmBin)
	case "sign":
		stats = famSign(tr, *scratch, *seed, *tier, *repo, *behaviours)
	case "iso":
		stats = famIso(tr, *scratch, *seed, *tier, *workers, *behaviours)
	case "conc":
		stats = famConc(tr, *scratch, *seed, *tier)
	case "repro":
		stats = famRepro(tr, *scratch, *seed, *tier, *nfpmBin)
	case "fault":
		stats = famFault(tr, *scratch, *seed, *tier, *workers, *repo, *nfpmBin, *behaviours)
	case "config":
		stats = famConfig(tr, *scratch, *seed, *tier, *workers, *profile)
	case "pkg":
		stats = famPkg(tr, *scratch, *seed, *tier, *workers, *profile)
	default:
		fmt.Fprintln(os.Stderr, "unknown family", fam)
		os.Exit(2)
	}
	tr.Close()
	stats["events"] = tr.lines
	b, _ := json.Marshal(stats)
	os.WriteFile(*out+".stats", b, 0o644)
	fmt.Println(string(b))
}
