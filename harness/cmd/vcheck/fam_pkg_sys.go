package main

// Systematic (exhaustive) matrices of the "pkg" family: architecture x
// format, optional version components, script-slot subsets, entry type x
// packager tag, compression settings, payload sizes.

import (
	"bytes"
	"fmt"
	"math/rand"
	"path/filepath"
	"strings"
)

func baseCfg(name string) *Cfg {
	return &Cfg{Name: name, Arch: "amd64", Platform: "linux", Version: "1.2.3", Maintainer: "Jane Doe <jane@example.org>",
		Description: "Synopsis line\nsecond line", Umask: 0o22, Pmt: 1600000000, RpmBuildHost: "buildhost.example",
		Scripts: map[string]string{}, ScriptCid: map[string]string{}, ScriptMt: map[string]int{}}
}

func smallTree() []Node {
	mk := func(p string, mode int, body string) Node {
		b := []byte(body)
		return Node{P: p, Kind: "file", Mode: mode, Mt: 1500000000, Size: len(b), data: b, Cid: cidOf(b)}
	}
	return []Node{
		{P: "src", Kind: "dir", Mode: 0o755, Mt: 1500000000},
		mk("src/bin", 0o755, "#!/bin/sh\necho bin\n"),
		mk("src/app.conf", 0o640, "key = value\n"),
		mk("src/extra.conf", 0o664, "other = 1\n"),
		mk("src/empty", 0o644, ""),
		{P: "src/sub", Kind: "dir", Mode: 0o775, Mt: 1500000001},
		mk("src/sub/data.txt", 0o666, "data\n"),
		{P: "src/sub/nested", Kind: "dir", Mode: 0o770, Mt: 1500000003},
		mk("src/sub/nested/deep.txt", 0o640, "deep\n"),
		{P: "src/sub/lnk", Kind: "link", Mode: 0o777, Link: "./nested/../data.txt", Tk: "file"},
	}
}

// ovScripts gives format f an override scripts block for the given common slots, with bytes distinct from every other script.
func ovScripts(c *Cfg, f string, slots []string) []Node {
	if c.Ov == nil {
		c.Ov = map[string]*OvCfg{}
	}
	if c.Ov[f] == nil {
		c.Ov[f] = &OvCfg{}
	}
	o := c.Ov[f]
	o.Scripts, o.ScriptCid, o.ScriptMt = map[string]string{}, map[string]string{}, map[string]int{}
	var nodes []Node
	for i, sl := range slots {
		body := []byte(fmt.Sprintf("#!/bin/sh\n# override of %s for %s\nexit 0\n", sl, f))
		p := fmt.Sprintf("scripts/ov_%s_%s.sh", f, sl)
		mt := 1430000000 + i*1000 + len(f)
		nodes = append(nodes, Node{P: p, Kind: "file", Mode: 0o755, Mt: mt, Size: len(body), data: body, Cid: cidOf(body)})
		o.Scripts[sl], o.ScriptCid[sl], o.ScriptMt[sl] = p, cidOf(body), mt
	}
	return nodes
}

// repoDir is the checkout under test (its internal/sign/testdata holds the test keys); set from --repo.
var repoDir = "/repo"

func systematicPkgCases(id *int, profile, scratch string, rng *rand.Rand, tier string) []*PkgCase {
	var out []*PkgCase
	add := func(c *Cfg, nodes []Node, sub string) {
		*id++
		out = append(out, &PkgCase{ID: *id, Profile: profile + ":" + sub, Cfg: c, Nodes: nodes, Root: filepath.Join(scratch, fmt.Sprintf("pkg-%d", *id)), Formats: allFormats})
	}
	addEnv := func(c *Cfg, nodes []Node, sub string, edit func(string) string, env map[string]string) {
		*id++
		out = append(out, &PkgCase{ID: *id, Profile: profile + ":" + sub, Cfg: c, Nodes: nodes, Root: filepath.Join(scratch, fmt.Sprintf("pkg-%d", *id)), Formats: allFormats,
			EnvEdit: edit, Env: env})
	}
	_ = addEnv
	plain := Entry{Type: "file", Src: "src/bin", Dst: "/usr/bin/tool"}
	if profile == "overrides" { // the override groups of the three other profiles
		for _, p := range []string{"meta", "scripts", "payload"} {
			for _, pc := range systematicPkgCases(id, p, scratch, rng, tier) {
				if strings.Contains(pc.Profile, ":override-") {
					out = append(out, pc)
				}
			}
		}
		return out
	}
	switch profile {
	case "meta":
		// every documented GOARCH value (+ all, + unknown values) x five formats
		for _, a := range []string{"amd64", "386", "arm64", "arm5", "arm6", "arm7", "mips64le", "mipsle", "ppc64le", "s390", "all",
			"riscv64", "mips", "mipsle-softfloat", "mipshardfloat", "mips64hardfloat", "loong64", "x86_64", "armhf", "weird-arch"} {
			c := baseCfg("archpkg")
			c.Arch = a
			c.Entries = []Entry{plain}
			add(c, smallTree(), "arch")
		}
		// format-specific overrides, verbatim (also when the value is itself a GOARCH name)
		for _, a := range []string{"custom", "arm64", "amd64", "all", "386"} {
			c := baseCfg("archovr")
			c.Arch = "arm7"
			c.DebArch, c.RpmArch, c.ApkArch, c.ArchArch, c.IpkArch = a, a, a, a, a
			add(c, smallTree(), "archovr")
		}
		// every combination of optional version components
		for mask := 0; mask < 16; mask++ {
			c := baseCfg("verpkg")
			if mask&1 != 0 {
				c.Epoch = "3"
			}
			if mask&2 != 0 {
				c.Prerelease = "rc-1"
			}
			if mask&4 != 0 {
				c.Metadata = "git.7"
			}
			if mask&8 != 0 {
				c.Release = "4"
			}
			add(c, smallTree(), "vercomp")
		}
		// version-embedded vs explicit prerelease / metadata: every combination
		for mask := 0; mask < 16; mask++ {
			c := baseCfg("splitpkg")
			c.Version = "v2.3.4"
			if mask&1 != 0 {
				c.Version += "-rc.1"
			}
			if mask&2 != 0 {
				c.Version += "+git.abc"
			}
			if mask&4 != 0 {
				c.Prerelease = "beta2"
			}
			if mask&8 != 0 {
				c.Metadata = "b77"
			}
			add(c, smallTree(), "split")
		}
		// descriptions: blank and blanks-only lines, leading/trailing blanks, tabs
		for _, d := range []string{"Syn\n\nafter empty", "Syn\n   \nafter spaces", "Syn\n\t\nafter tab", "  Syn padded  \n  indented line  ", "Syn\nlast\n", "Syn\n\n\n\ntwo blanks"} {
			c := baseCfg("descpkg")
			c.Description = d
			c.DebFields = []KV2{{"Bugs", "https://bugs.example/after-description"}}
			add(c, smallTree(), "desc")
		}
		// release spellings (archlinux wants an integer pkgrel; the others take the string as written)
		for _, rel := range []string{"0", "00", "7", "012", "1.2", "rc1"} {
			c := baseCfg("relpkg2")
			c.Release = rel
			add(c, smallTree(), "release")
		}
		// relations: each list alone, long lists
		for i := 0; i < 6; i++ {
			c := baseCfg("relpkg")
			l := []string{"one", "two >= 1.0", "three = 2", "four < 9", "five", "six <= 1.2.3", "seven > 0"}
			switch i {
			case 0:
				c.Depends = l
			case 1:
				c.Recommends = l
			case 2:
				c.Suggests = l
			case 3:
				c.Conflicts = l
			case 4:
				c.Replaces = l
			case 5:
				c.Provides = l
			}
			c.DebBreaks = []string{"brk1", "brk2 (<< 2)"}
			c.DebPredepends = []string{"pre1", "pre2"}
			c.IpkPredepends = []string{"ipre1"}
			add(c, smallTree(), "rel")
		}
		// version ranges: the same package named twice with different constraints, exact duplicates, same name bare and versioned
		for i := 0; i < 6; i++ {
			c := baseCfg("rangepkg")
			l := []string{"libfoo >= 1.2", "libfoo < 2.0", "libbar", "libbar >= 3", "libdup = 1", "libdup = 1", "zeta > 1", "zeta > 2"}
			switch i {
			case 0:
				c.Depends = l
			case 1:
				c.Recommends = l
			case 2:
				c.Suggests = l
			case 3:
				c.Conflicts = l
			case 4:
				c.Replaces = l
			case 5:
				c.Provides = l
			}
			add(c, smallTree(), "rel-range")
		}
		// changelog notes with several lines; upper-case prerelease; metadata containing a dash
		{
			c := baseCfg("chlogpkg")
			c.Changelog = []ChEntry{{"1.2.3", 1500000000, "Jane Doe <jane@example.org>", []string{"first line\nsecond line of the same note\nthird", "single"}}}
			add(c, smallTree(), "changelog-multiline")
		}
		// build metadata with the prefixes apk knows (p, cvs, svn, git, hg) and without; a numeric prerelease with and without a
		// release; the suffix `git describe` appends
		for _, m := range []string{"hg20240117", "git5", "svn12", "cvs3", "p1", "20240117", "build.5", "hotfix"} {
			c := baseCfg("metapfx")
			c.Version = "1.4.0+" + m
			c.Release = "2"
			add(c, smallTree(), "apk-meta-prefix")
		}
		for _, v := range []string{"1.2.3-4", "1.2.3-0", "v1.2.3-4-gdeadbee", "1.2.3-12-g0a1b2c3", "1.2.3-7.8"} {
			for _, rel := range []string{"", "3"} {
				c := baseCfg("numpre")
				c.Version, c.Release = v, rel
				add(c, smallTree(), "numeric-prerelease")
			}
		}
		// version, architecture and platform that reach the parser as environment references: what is packaged is the
		// normalised value (semver split, GOARCH translation) exactly as for a literal
		for _, v := range []struct{ ver, arch string }{{"v1.2.3-rc1+git5", "amd64"}, {"1.4.0-beta.2", "mipssoftfloat"}, {"v2.0.0", "arm7"}} {
			c := baseCfg("envverpkg")
			c.Version, c.Arch, c.Release = v.ver, v.arch, "2"
			ver, arch := v.ver, v.arch
			addEnv(c, smallTree(), "env-version", func(y string) string {
				y = strings.Replace(y, "version: "+yq(ver), "version: \"${VERIF_VER}\"", 1)
				return strings.Replace(y, "arch: "+yq(arch), "arch: \"${VERIF_ARCH}\"", 1)
			}, map[string]string{"VERIF_VER": ver, "VERIF_ARCH": arch})
		}
		// every trigger directive of deb; the packager of archlinux; the abi version of ipk
		{
			c := baseCfg("trigpkg")
			c.DebTriggers = []KV2{{"interest", "t-i"}, {"interest_await", "t-ia"}, {"interest_noawait", "t-in"}, {"activate", "t-a"}, {"activate_await", "t-aa"}, {"activate_noawait", "t-an"}}
			c.ArchPackager, c.ArchPkgbase = "Arch Packager <arch@example.org>", "trigbase"
			c.IpkABI = "1.1"
			add(c, smallTree(), "every-directive")
			for _, one := range c.DebTriggers {
				c2 := baseCfg("trigone")
				c2.DebTriggers = []KV2{one}
				add(c2, smallTree(), "one-directive")
			}
		}
		// a prerelease that equals the release; schema none with explicit components that happen to end the version; a
		// verbatim version with a tilde
		for _, v := range []struct{ ver, schema, pre, meta, rel string }{{"1.2.3-1", "", "", "", "1"}, {"3.0.0-2", "", "", "", "2"}, {"1.2.1", "none", "1", "", ""},
			{"2024.5", "none", "", "5", ""}, {"4.0b", "none", "b", "", "1"}, {"1.0.0~rc1", "none", "", "", ""}, {"1.2.3.4~git20240101", "", "", "", "1"}} {
			c := baseCfg("veredge")
			c.Version, c.Schema, c.Prerelease, c.Metadata, c.Release = v.ver, v.schema, v.pre, v.meta, v.rel
			add(c, smallTree(), "version-edges")
		}
		// custom control fields that name a field the packager writes itself (must not show up a second time), several custom
		// fields at once; an explicit epoch of zero together with a prerelease; a package without a build host after one with
		{
			c := baseCfg("reservedfields")
			c.IpkFields = []KV2{{"Architecture", "aarch64_cortex-a53"}, {"Installed-Size", "999"}, {"Version", "9.9.9"}, {"Source", "feeds/x"}, {"Bugs", "b"}, {"Zeta", "z"}}
			c.DebFields = []KV2{{"Bugs", "https://bugs.example/x"}, {"Built-Using", "golang"}, {"Zeta", "z"}}
			c.IpkEss, c.IpkAuto = true, true
			add(c, smallTree(), "reserved-fields")
			c2 := baseCfg("epochzero")
			c2.Version, c2.Epoch, c2.Release = "1.2.3-beta1", "0", "2"
			add(c2, smallTree(), "epoch-zero")
			c3 := baseCfg("nohostpkg")
			c3.RpmBuildHost = "another-build-host.example"
			add(c3, smallTree(), "buildhost-set")
			c4 := baseCfg("hostlesspkg") // (built in the same process as packages that configure one)
			c4.RpmBuildHost = ""
			add(c4, smallTree(), "buildhost-unset")
		}
		// relations that reach the parser as references to a caller's mapping (not the process environment); the same value
		// twice in a relation list (stated twice, in order); an architecture no table knows (passed on as it is)
		{
			c := baseCfg("envrel")
			c.Depends = []string{"libfoo = 1.2.3", "base-dep", "plain"}
			c.Provides, c.Conflicts, c.Recommends = []string{"virt-1.2.3"}, []string{"old < 1.2.3"}, []string{"rec-base-dep"}
			c.DebPredepends, c.IpkPredepends = []string{"pre >= 1.2.3"}, []string{"ipre-base-dep"}
			addEnv(c, smallTree(), "relations-from-a-mapping", func(y string) string {
				y = strings.ReplaceAll(y, " 1.2.3\"", " ${VERIF_RELV}\"")
				y = strings.ReplaceAll(y, "virt-1.2.3", "virt-${VERIF_RELV}")
				return strings.ReplaceAll(y, "base-dep", "${VERIF_RELDEP}")
			}, map[string]string{"VERIF_RELV": "1.2.3", "VERIF_RELDEP": "base-dep"})
			c2 := baseCfg("duprel")
			c2.Depends = []string{"a", "b >= 1", "a", "c", "b >= 1"}
			c2.Provides, c2.Replaces, c2.Conflicts = []string{"p", "p", "q"}, []string{"r2", "r1", "r2"}, []string{"x", "y", "x"}
			c2.Recommends, c2.Suggests = []string{"m", "m"}, []string{"s", "t", "s"}
			add(c2, smallTree(), "repeated-relations")
			for _, a := range []string{"arm64v8.0", "arm64be", "amd64v3", "riscv64-unknown"} {
				c3 := baseCfg("oddarch")
				c3.Arch = a
				add(c3, smallTree(), "unknown-architecture")
			}
		}
		// names archlinux does not take (a character outside [A-Za-z0-9._+-], a leading hyphen or dot): archlinux refuses to
		// build, the other formats use the name as it is
		for _, nm := range []string{"openssl@1.1", "has~tilde", "-lead", ".dot", "ok.name+x_1"} {
			c := baseCfg(nm)
			add(c, smallTree(), "arch-name-rule")
		}
		// a platform other than linux (deb prefixes the architecture with it; apk and archlinux refuse)
		for _, plat := range []string{"freebsd", "kfreebsd", "darwin"} {
			c := baseCfg("platpkg")
			c.Platform = plat
			c.Arch = "arm64"
			add(c, smallTree(), "other-platform")
		}
		{ // a changelog file that has no entries (yet)
			c := baseCfg("chlogemptypkg")
			c.Changelog = []ChEntry{}
			c.Entries = []Entry{plain}
			add(c, smallTree(), "changelog-empty")
		}
		for _, v := range []string{"1.2.3-RC.1+Build.7", "1.2.3+git-0a1b2c3", "V1.2.3-rc1", "1.2.3-Beta"} {
			c := baseCfg("casepkg")
			c.Version = v
			add(c, smallTree(), "version-case")
		}
		{
			c := baseCfg("metapkg")
			c.Metadata = "git-0a1b2c3"
			c.Prerelease = "RC-2"
			add(c, smallTree(), "version-case")
		}
		// platform other than linux (deb prefixes the architecture)
		{
			c := baseCfg("platpkg")
			c.Platform = "darwin"
			add(c, smallTree(), "platform")
		}
		// override blocks: lists are replaced wholesale by a non-empty override, untouched otherwise; another format's block has no effect
		for variant := 0; variant < 4; variant++ {
			c := baseCfg("ovrelpkg")
			if variant != 1 {
				c.Depends, c.Recommends, c.Suggests = []string{"base-dep >= 1.2.3-0", "base-lib-devel"}, []string{"base-rec"}, []string{"base-sug"}
				c.Conflicts, c.Replaces, c.Provides = []string{"base-con"}, []string{"base-rep"}, []string{"base-prov = 1"}
			}
			c.Ov = map[string]*OvCfg{
				"deb":       {Depends: []string{"base-dep (>= 1.2.3-0)", "base-lib-dev"}},
				"rpm":       {Provides: []string{"rpm-prov"}, Conflicts: []string{"rpm-con < 2"}},
				"apk":       {Depends: []string{"apk-dep"}, Recommends: []string{"apk-rec"}, Suggests: []string{"apk-sug"}, Conflicts: []string{"apk-con"}, Replaces: []string{"apk-rep"}, Provides: []string{"apk-prov"}},
				"archlinux": {Suggests: []string{"arch-sug: why"}},
			}
			switch variant {
			case 2:
				c.Ov["ipk"] = &OvCfg{} // a block that overrides nothing here
			case 3:
				c.Ov = map[string]*OvCfg{"ipk": {Depends: []string{"ipk-dep"}, Replaces: []string{"ipk-rep"}}}
			}
			c.Entries = []Entry{plain}
			add(c, smallTree(), "override-lists")
		}
	case "scripts":
		spec := [][]string{{"deb.rules", "rpm.pretrans", "apk.preupgrade", "archlinux.preupgrade"},
			{"deb.templates", "rpm.posttrans", "apk.postupgrade", "archlinux.postupgrade"},
			{"deb.config", "rpm.verify"}}
		for mask := 0; mask < 128; mask++ {
			var slots []string
			for i := 0; i < 4; i++ {
				if mask&(1<<i) != 0 {
					slots = append(slots, scriptSlots[i])
				}
			}
			for j := 0; j < 3; j++ {
				if mask&(1<<(4+j)) != 0 {
					slots = append(slots, spec[j]...)
				}
			}
			c := baseCfg("scriptpkg")
			nodes := append(smallTree(), addScripts(rng, c, slots)...)
			c.Entries = []Entry{plain}
			add(c, nodes, "slots")
		}
		// scripts together with a changelog (both end up in the package; neither step may skip the other)
		for _, slots := range [][]string{{"preinstall", "postinstall", "preremove", "postremove"}, {"postinstall", "rpm.pretrans", "rpm.posttrans", "rpm.verify", "deb.rules"}} {
			c := baseCfg("chlogscripts")
			nodes := append(smallTree(), addScripts(rng, c, slots)...)
			c.Changelog = []ChEntry{{"1.2.3", 1500000000, "Jane Doe <jane@example.org>", []string{"note"}}}
			c.Entries = []Entry{plain}
			add(c, nodes, "scripts-and-changelog")
		}
		// the script files are rewritten between two builds of the same configuration in one process (scripts generated per
		// target): the second packages carry the new bytes
		for _, slots := range [][]string{{"preinstall", "postinstall", "preremove", "postremove"}, scriptSlots} {
			c := baseCfg("rescriptpkg")
			nodes := append(smallTree(), addScripts(rng, c, slots)...)
			c.Entries = []Entry{plain}
			add(c, nodes, "rewritten-scripts")
			out[len(out)-1].Rescript = true
		}
		// scripts of a package that installs nothing (a meta package), only directories and links, or only empty files: the
		// scripts are what such a package is for
		for vi, ents := range [][]Entry{{}, {{Type: "dir", Dst: "/var/lib/metapkg"}, {Type: "symlink", Src: "/usr/bin/other", Dst: "/usr/bin/metapkg"}},
			{{Type: "file", Src: "src/empty", Dst: "/usr/share/metapkg/marker"}}} {
			c := baseCfg("metapkg")
			nodes := append(smallTree(), addScripts(rng, c, scriptSlots)...)
			c.Entries = ents
			add(c, nodes, fmt.Sprintf("scripts-of-empty-package-%d", vi))
		}
		// every script shape in every slot at once (the random cases pick a shape per slot)
		for si, shape := range scriptShapes {
			c := baseCfg("shapedscripts")
			nodes := append(smallTree(), addScripts(rng, c, scriptSlots)...)
			for i := range nodes {
				if slot := slotOfNode(c, nodes[i].P); slot != "" {
					body := append(append([]byte{}, shape...), []byte(fmt.Sprintf("# slot %s", slot))...)
					nodes[i].data, nodes[i].Size, nodes[i].Cid = body, len(body), cidOf(body)
					c.ScriptCid[slot] = cidOf(body)
				}
			}
			c.Entries = []Entry{plain}
			add(c, nodes, fmt.Sprintf("script-shape-%d", si))
		}
		// an essential ipk has its removal scripts like any other; a script path that goes up out of a SYMLINKED directory
		// (the operating system resolves it, lexical cleaning would name another file)
		{
			c := baseCfg("essentialpkg")
			nodes := append(smallTree(), addScripts(rng, c, commonSlots)...)
			c.IpkEss = true
			c.Entries = []Entry{plain}
			add(c, nodes, "essential-ipk")
			c2 := baseCfg("linkedscripts")
			nodes2 := append(smallTree(), addScripts(rng, c2, []string{"postinstall", "preremove"})...)
			real, decoy := []byte("#!/bin/sh\necho the configured script\n"), []byte("#!/bin/sh\necho NOT the configured script\n")
			nodes2 = append(nodes2, Node{P: "scripts/shared", Kind: "dir", Mode: 0o755, Mt: 1450000000}, Node{P: "scripts/shared/hooks", Kind: "dir", Mode: 0o755, Mt: 1450000000},
				Node{P: "scripts/shared/post.sh", Kind: "file", Mode: 0o755, Mt: 1440005000, Size: len(real), data: real, Cid: cidOf(real)},
				Node{P: "scripts/post.sh", Kind: "file", Mode: 0o755, Mt: 1440006000, Size: len(decoy), data: decoy, Cid: cidOf(decoy)},
				Node{P: "scripts/hooks", Kind: "link", Link: "shared/hooks", Tk: "dir"})
			c2.Scripts["postinstall"], c2.ScriptCid["postinstall"], c2.ScriptMt["postinstall"] = "scripts/hooks/../post.sh", cidOf(real), 1440005000
			c2.Entries = []Entry{plain}
			add(c2, nodes2, "script-through-symlinked-dir")
		}
		// one script file used for several slots (a dispatching maintainer script)
		for _, slots := range [][]string{{"preinstall", "preremove"}, {"postinstall", "postremove", "preinstall"}, commonSlots} {
			c := baseCfg("sharedscript")
			nodes := append(smallTree(), addScripts(rng, c, slots[:1])...)
			for _, sl := range slots[1:] {
				c.Scripts[sl], c.ScriptCid[sl], c.ScriptMt[sl] = c.Scripts[slots[0]], c.ScriptCid[slots[0]], c.ScriptMt[slots[0]]
			}
			c.Entries = []Entry{plain}
			add(c, nodes, "shared-script")
		}
		// block-aligned and empty scripts (the last member of a cut tar segment ends exactly on a block boundary)
		for _, size := range []int{0, 512, 1024, 511, 513} {
			for _, slots := range [][]string{{"preinstall"}, {"postinstall", "preremove"}, {"preinstall", "apk.preupgrade", "archlinux.postupgrade", "deb.templates", "rpm.verify"}} {
				c := baseCfg("alignpkg")
				nodes := append(smallTree(), addScripts(rng, c, slots)...)
				for i := range nodes {
					if strings.HasPrefix(nodes[i].P, "scripts/") && nodes[i].Kind == "file" {
						b := bytes.Repeat([]byte("#"), size)
						if size > 2 {
							copy(b, "#!/bin/sh\n")
							b[size-1] = '\n'
						}
						nodes[i].data, nodes[i].Size, nodes[i].Cid = b, size, cidOf(b)
						for slot, pth := range c.Scripts {
							if pth == nodes[i].P {
								c.ScriptCid[slot] = cidOf(b)
							}
						}
					}
				}
				c.Entries = []Entry{plain}
				add(c, nodes, "aligned-scripts")
			}
		}
		// override blocks: the common scripts are overridden field by field - a block that restates some of them leaves the others
		for variant := 0; variant < 4; variant++ {
			c := baseCfg("ovscriptpkg")
			base := [][]string{{"preinstall", "postinstall"}, {"preinstall", "postinstall", "preremove", "postremove"}, {"postremove"}, {}}[variant]
			nodes := append(smallTree(), addScripts(rng, c, append(append([]string{}, base...), "deb.rules", "rpm.posttrans"))...)
			if len(base) == 0 {
				nodes = append(nodes, Node{P: "scripts", Kind: "dir", Mode: 0o755, Mt: 1450000000})
			}
			nodes = append(nodes, ovScripts(c, "deb", []string{"postinstall"})...)
			nodes = append(nodes, ovScripts(c, "rpm", []string{"preremove", "preinstall"})...)
			nodes = append(nodes, ovScripts(c, "apk", commonSlots)...)
			nodes = append(nodes, ovScripts(c, "archlinux", []string{"preinstall"})...)
			c.Ov["ipk"] = &OvCfg{Depends: []string{"only-a-relation"}} // a block without scripts
			c.Entries = []Entry{plain}
			add(c, nodes, "override-scripts")
		}
	case "payload":
		// override blocks and the umask: a base umask stays in force for a format whose block does not set one
		for _, bu := range []int{0, 0o27, 0o77} {
			c := baseCfg("ovumaskpkg")
			c.Umask = bu
			c.Ov = map[string]*OvCfg{"deb": {Depends: []string{"x"}}, "rpm": {Umask: 0o77}, "apk": {Umask: 0o02}, "archlinux": {Umask: 0o27, Depends: []string{"y"}}}
			c.Entries = []Entry{plain, {Type: "tree", Src: "src/sub", Dst: "/usr/share/ovumask"}, {Type: "config", Src: "src/app.conf", Dst: "/etc/ovumask/app.conf"}}
			add(c, smallTree(), "override-umask")
		}
		// every (entry type x packager tag), alone next to a plain file
		types := []struct{ t, src string }{{"file", "src/app.conf"}, {"", "src/app.conf"}, {"config", "src/app.conf"}, {"config|noreplace", "src/app.conf"},
			{"config|missingok", "src/app.conf"}, {"dir", ""}, {"symlink", "/usr/bin/tool"}, {"tree", "src/sub"}, {"ghost", ""},
			{"doc", "src/app.conf"}, {"licence", "src/app.conf"}, {"license", "src/app.conf"}, {"readme", "src/app.conf"}}
		for _, ty := range types {
			for _, tag := range []string{"", "deb", "rpm", "apk", "archlinux", "ipk"} {
				c := baseCfg("typepkg")
				c.Entries = []Entry{plain, {Type: ty.t, Src: ty.src, Dst: "/etc/typepkg/item", Tag: tag}}
				add(c, smallTree(), "typetag")
			}
		}
		// the same matrix below /usr/share/doc (where rpm's own tooling treats files specially) for the file-backed types
		for _, ty := range types {
			if ty.t == "dir" || ty.t == "tree" || ty.t == "symlink" {
				continue
			}
			for _, tag := range []string{"", "rpm"} {
				c := baseCfg("docdirpkg")
				c.Entries = []Entry{plain, {Type: ty.t, Src: ty.src, Dst: "/usr/share/doc/docdirpkg/item", Tag: tag}}
				add(c, smallTree(), "typetag-docdir")
			}
		}
		// globbing disabled: the source is taken literally, the destination rules stay (a trailing slash means "into")
		{
			c := baseCfg("noglobpkg")
			c.NoGlob = true
			c.Entries = []Entry{plain, {Type: "file", Src: "src/app.conf", Dst: "/etc/noglobpkg/"}, {Type: "config", Src: "src/extra.conf", Dst: "/etc/noglobpkg/"},
				{Type: "file", Src: "src/sub", Dst: "/usr/share/noglobpkg/"}, {Type: "file", Src: "src/empty", Dst: "/usr/share/noglobpkg/renamed"},
				{Type: "config", Src: "src/app.conf", Dst: "/etc/noglobpkg/renamed.conf"}, {Type: "config|noreplace", Src: "src/extra.conf", Dst: "/etc/noglobpkg/keep.conf"},
				{Type: "config|missingok", Src: "src/app.conf", Dst: "/etc/noglobpkg/optional.conf"}}
			add(c, smallTree(), "noglob-into-dir")
		}
		// override blocks for every format AND entries addressed to single packagers: every format built from the one parsed
		// configuration ships its own entries, whichever formats were built before it
		{
			c := baseCfg("ovtagpkg")
			c.Ov = map[string]*OvCfg{}
			for _, f := range allFormats {
				c.Ov[f] = &OvCfg{Depends: []string{"dep-" + f}}
			}
			c.Entries = []Entry{plain}
			for _, f := range []string{"rpm", "deb", "apk", "ipk", "archlinux"} {
				c.Entries = append(c.Entries, Entry{Type: "file", Src: "src/app.conf", Dst: "/etc/ovtagpkg/only-" + f + ".conf", Tag: f})
			}
			c.Entries = append(c.Entries, Entry{Type: "file", Src: "src/extra.conf", Dst: "/etc/ovtagpkg/everyone.conf"})
			add(c, smallTree(), "overrides-and-tags")
		}
		// one source shipped to several destinations with different declared modes / mtimes / owners
		{
			c := baseCfg("samesrcpkg")
			c.Entries = []Entry{plain, {Type: "file", Src: "src/app.conf", Dst: "/etc/samesrcpkg/a.conf", Fi: Fi{Mode: 0o600, Mt: 1300000000, Owner: "app", Group: "grp"}, HasFi: true},
				{Type: "file", Src: "src/app.conf", Dst: "/etc/samesrcpkg/b.conf", Fi: Fi{Mode: 0o644, Mt: 1310000000}, HasFi: true},
				{Type: "config", Src: "src/app.conf", Dst: "/etc/samesrcpkg/c.conf", Fi: Fi{Mode: 0o4755, Group: "adm"}, HasFi: true},
				{Type: "file", Src: "src/app.conf", Dst: "/usr/share/samesrcpkg/d.conf"}}
			add(c, smallTree(), "same-source")
		}
		// a typed single-file entry and a tree that covers the same source at the same destination: two entries for one
		// destination - the list is rejected (in both orders), the declared type is not silently lost
		for _, ty := range []string{"config", "config|noreplace", "doc"} {
			for _, treeFirst := range []bool{false, true} {
				c := baseCfg("overlaypkg")
				one := Entry{Type: ty, Src: "src/sub/data.txt", Dst: "/usr/share/overlaypkg/tree/data.txt"}
				tree := Entry{Type: "tree", Src: "src/sub", Dst: "/usr/share/overlaypkg/tree"}
				if treeFirst {
					c.Entries = []Entry{plain, tree, one}
				} else {
					c.Entries = []Entry{plain, one, tree}
				}
				add(c, smallTree(), "tree-overlay")
			}
		}
		// entries beneath a symbolic link / a regular file: the list is rejected for every format (nothing is shipped below
		// something that is not a directory)
		for _, first := range []Entry{{Type: "symlink", Src: "/opt/demo/releases/1", Dst: "/opt/demo/current"}, {Type: "file", Src: "src/bin", Dst: "/opt/demo/current"}} {
			c := baseCfg("beneathpkg")
			c.Entries = []Entry{plain, first, {Type: "file", Src: "src/app.conf", Dst: "/opt/demo/current/conf/app.conf"}, {Type: "dir", Dst: "/opt/demo/current/data"}}
			add(c, smallTree(), "beneath-non-directory")
		}
		// a tree that walks through directories the logrotate package owns (the second list of files/fs.go) and through
		// ordinary ones, at the root and below a prefix; two trees sharing such a directory
		{
			mkf := func(p, body string) Node {
				b := []byte(body)
				return Node{P: p, Kind: "file", Mode: 0o644, Mt: 1500000000, Size: len(b), data: b, Cid: cidOf(b)}
			}
			mkd := func(p string) Node { return Node{P: p, Kind: "dir", Mode: 0o755, Mt: 1500000000} }
			nodes := append(smallTree(), mkd("rootfs"), mkd("rootfs/etc"), mkd("rootfs/etc/logrotate.d"), mkf("rootfs/etc/logrotate.d/lrpkg", "rotate 4\n"),
				mkd("rootfs/var"), mkd("rootfs/var/lib"), mkd("rootfs/var/lib/logrotate"), mkf("rootfs/var/lib/logrotate/status", "s"),
				mkd("rootfs/usr"), mkd("rootfs/usr/lib"), mkd("rootfs/usr/lib/.build-id"), mkd("rootfs/usr/lib/.build-id/ae"), mkf("rootfs/usr/lib/.build-id/ae/1234", "id"),
				mkd("rootfs/usr/share"), mkd("rootfs/usr/share/licenses"), mkd("rootfs/usr/share/licenses/logrotate"), mkf("rootfs/usr/share/licenses/logrotate/COPYING", "c"),
				mkd("rootfs2"), mkd("rootfs2/etc"), mkd("rootfs2/etc/logrotate.d"), mkf("rootfs2/etc/logrotate.d/second", "rotate 2\n"))
			c := baseCfg("lrpkg")
			c.Entries = []Entry{{Type: "tree", Src: "rootfs", Dst: "/"}}
			add(c, nodes, "tree-through-logrotate-dirs")
			c2 := baseCfg("lrpkg")
			c2.Entries = []Entry{plain, {Type: "tree", Src: "rootfs", Dst: "/"}, {Type: "tree", Src: "rootfs2", Dst: "/"}}
			add(c2, nodes, "tree-through-logrotate-dirs")
			c3 := baseCfg("lrpkg")
			c3.Entries = []Entry{plain, {Type: "tree", Src: "rootfs/etc", Dst: "/etc"}, {Type: "file", Src: "src/app.conf", Dst: "/etc/logrotate.d/from-file"}}
			add(c3, nodes, "tree-through-logrotate-dirs")
		}
		// a backslash is an ordinary character of a file name (a systemd-escaped unit name)
		{
			c := baseCfg("bslash")
			c.NoGlob = true
			c.Entries = []Entry{plain, {Type: "file", Src: "src/app.conf", Dst: "/etc/systemd/system/mnt-my\\x2ddata.mount"},
				{Type: "symlink", Src: "mnt-my\\x2ddata.mount", Dst: "/etc/systemd/system/alias\\x2done.mount"}, {Type: "dir", Dst: "/var/lib/bslash/a\\b"}}
			add(c, smallTree(), "backslash-in-names")
		}
		// a ghost with attributes of its own; files whose own mtime is LATER than the package's; a declared directory spelled
		// with dot segments next to an entry in the same real directory
		{
			c := baseCfg("ghostattr")
			c.Entries = []Entry{plain, {Type: "ghost", Dst: "/var/log/ghostattr/app.log", Fi: Fi{Owner: "app", Group: "adm", Mode: 0o640}, HasFi: true},
				{Type: "ghost", Dst: "/var/lib/ghostattr/key", Fi: Fi{Mode: 0o600}, HasFi: true}, {Type: "ghost", Dst: "/var/lib/ghostattr/plain"}}
			add(c, smallTree(), "ghost-with-attributes")
			c2 := baseCfg("newerfiles")
			c2.Entries = []Entry{plain, {Type: "file", Src: "src/app.conf", Dst: "/etc/newerfiles/newer.conf", Fi: Fi{Mt: 1700000000}, HasFi: true},
				{Type: "config", Src: "src/extra.conf", Dst: "/etc/newerfiles/much-newer.conf", Fi: Fi{Mt: 2000000000}, HasFi: true},
				{Type: "file", Src: "src/empty", Dst: "/usr/share/newerfiles/older", Fi: Fi{Mt: 1200000000}, HasFi: true}, {Type: "dir", Dst: "/var/lib/newerfiles", Fi: Fi{Mt: 1800000000}, HasFi: true}}
			add(c2, smallTree(), "files-newer-than-the-package")
			c3 := baseCfg("dotdir")
			c3.Entries = []Entry{plain, {Type: "dir", Dst: "/opt/dotdir/app/../shared/", Fi: Fi{Mode: 0o750}, HasFi: true}, {Type: "file", Src: "src/app.conf", Dst: "/opt/dotdir/shared/app.conf"},
				{Type: "dir", Dst: "/opt/dotdir/./logs/"}, {Type: "file", Src: "src/empty", Dst: "/opt/dotdir/logs/keep"}}
			add(c3, smallTree(), "declared-dir-with-dot-segments")
		}
		// configuration files taken by a wildcard / a directory that also matches hidden files
		{
			mkf := func(p, body string) Node {
				b := []byte(body)
				return Node{P: p, Kind: "file", Mode: 0o600, Mt: 1500000000, Size: len(b), data: b, Cid: cidOf(b)}
			}
			nodes := append(smallTree(), Node{P: "conf.d", Kind: "dir", Mode: 0o755, Mt: 1500000000}, mkf("conf.d/.env", "SECRET=1\n"), mkf("conf.d/.credentials", "c"), mkf("conf.d/app.conf", "a=1\n"))
			for _, src := range []string{"conf.d/*", "conf.d", "conf.d/.env"} {
				c := baseCfg("hiddenconf")
				dst := "/etc/hiddenconf/"
				if src == "conf.d/.env" {
					dst = "/etc/hiddenconf/.env"
				}
				c.Entries = []Entry{plain, {Type: "config", Src: src, Dst: dst}, {Type: "file", Src: src, Dst: strings.Replace(dst, "/etc/", "/usr/share/", 1)}}
				add(c, nodes, "hidden-files-in-a-glob")
			}
		}
		// an opted-in destination that ends in a slash and holds a reference: still "into that directory"
		{
			c := baseCfg("expdirpkg")
			c.Entries = []Entry{plain, {Type: "file", Src: "src/app.conf", Dst: "/etc/expdir/", Expand: true}, {Type: "config", Src: "src/extra.conf", Dst: "/etc/expdir/conf.d/", Expand: true}}
			addEnv(c, smallTree(), "expanded-directory-destination", func(y string) string {
				return strings.ReplaceAll(y, "/etc/expdir/", "/etc/${VERIF_APP}/")
			}, map[string]string{"VERIF_APP": "expdir"})
		}
		// a symlink whose target is an opted-in reference; entries with an owner and no group (root's); names of one character
		// directly below the root; names that start with a dot directly below the root
		{
			c := baseCfg("explink")
			c.Entries = []Entry{plain, {Type: "symlink", Src: "libexp.so.3", Dst: "/usr/lib/explink/libexp.so", Expand: true},
				{Type: "file", Src: "src/app.conf", Dst: "/usr/lib/explink/libexp.so.3", Expand: true}}
			addEnv(c, smallTree(), "expanded-symlink-target", func(y string) string {
				return strings.ReplaceAll(y, "libexp.so.3", "libexp.so.${VERIF_SOVER}")
			}, map[string]string{"VERIF_SOVER": "3"})
			c2 := baseCfg("owneronly")
			c2.Entries = []Entry{plain, {Type: "file", Src: "src/app.conf", Dst: "/etc/owneronly/app.conf", Fi: Fi{Owner: "app"}, HasFi: true},
				{Type: "dir", Dst: "/var/lib/owneronly", Fi: Fi{Owner: "app", Mode: 0o750}, HasFi: true}, {Type: "config", Src: "src/extra.conf", Dst: "/etc/owneronly/extra.conf", Fi: Fi{Group: "adm"}, HasFi: true},
				{Type: "tree", Src: "src/sub", Dst: "/usr/share/owneronly", Fi: Fi{Owner: "app"}, HasFi: true}}
			add(c2, smallTree(), "owner-without-group")
			c3 := baseCfg("onechar")
			c3.Entries = []Entry{plain, {Type: "file", Src: "src/app.conf", Dst: "/x"}, {Type: "dir", Dst: "/e/", Fi: Fi{Mode: 0o750}, HasFi: true}, {Type: "file", Src: "src/extra.conf", Dst: "/e/f"},
				{Type: "symlink", Src: "x", Dst: "/l"}, {Type: "file", Src: "src/empty", Dst: "/d/y"}}
			add(c3, smallTree(), "one-character-names-at-the-root")
			c4 := baseCfg("topdot")
			c4.Entries = []Entry{plain, {Type: "config", Src: "src/app.conf", Dst: "/.hidden/app.conf"}, {Type: "file", Src: "src/extra.conf", Dst: "/.x"}, {Type: "dir", Dst: "/.cache/topdot"},
				{Type: "config|noreplace", Src: "src/extra.conf", Dst: "/..data/keep.conf"}}
			add(c4, smallTree(), "dot-names-at-the-root")
		}
		// an entry at the destination a link INSIDE a tree takes (either order): one of the two would be replaced - rejected
		for _, first := range []bool{true, false} {
			c := baseCfg("treelinkclash")
			f := Entry{Type: "file", Src: "src/app.conf", Dst: "/usr/share/treelinkclash/lnk"}
			t := Entry{Type: "tree", Src: "src/sub", Dst: "/usr/share/treelinkclash"}
			if first {
				c.Entries = []Entry{plain, f, t}
			} else {
				c.Entries = []Entry{plain, t, f}
			}
			add(c, smallTree(), "entry-at-a-tree-links-destination")
		}
		// an owner / group name no GNU tar header can hold (more than 32 bytes), on a declared directory, on a file: deb and ipk
		// cannot ship the entry as declared and say so; rpm, apk and archlinux store the name
		for vi, e := range []Entry{{Type: "dir", Dst: "/var/lib/longname", Fi: Fi{Owner: strings.Repeat("o", 40), Group: "g", Mode: 0o750}, HasFi: true},
			{Type: "file", Src: "src/app.conf", Dst: "/etc/longname/app.conf", Fi: Fi{Owner: "own", Group: strings.Repeat("g", 33)}, HasFi: true},
			{Type: "config", Src: "src/extra.conf", Dst: "/etc/longname/extra.conf", Fi: Fi{Owner: strings.Repeat("t", 64), Group: "g"}, HasFi: true}} {
			c := baseCfg("longname")
			c.Entries = []Entry{plain, e}
			add(c, smallTree(), fmt.Sprintf("name-over-gnu-limit-%d", vi))
		}
		// a custom control field that names the size the packager computes itself: the package states the computed one
		for _, big := range []bool{false, true} {
			c := baseCfg("sizefield")
			c.IpkFields = []KV2{{"Installed-Size", "999"}, {"Source", "feeds/x"}}
			c.Entries = []Entry{plain}
			if big {
				c.Entries = append(c.Entries, Entry{Type: "tree", Src: "src/sub", Dst: "/usr/share/sizefield"}, Entry{Type: "file", Src: "src/big", Dst: "/usr/share/sizefield/big"})
			}
			nodes := smallTree()
			if big {
				b := bytes.Repeat([]byte("0123456789abcdef"), 300)
				nodes = append(nodes, Node{P: "src/big", Kind: "file", Mode: 0o644, Mt: 1500000000, Size: len(b), data: b, Cid: cidOf(b)})
			}
			add(c, nodes, "custom-installed-size")
		}
		// a tree / a directory at the root itself (a root file system overlay)
		for _, e := range [][]Entry{{{Type: "tree", Src: "src/sub", Dst: "/"}}, {{Type: "dir", Dst: "/", Fi: Fi{Mode: 0o755}, HasFi: true}, {Type: "file", Src: "src/bin", Dst: "/tool"}}} {
			c := baseCfg("rootfspkg")
			c.Entries = e
			add(c, smallTree(), "root-overlay")
		}
		// glob matches in sibling directories one of whose names is a prefix of the other's
		{
			mkf := func(p, body string) Node {
				b := []byte(body)
				return Node{P: p, Kind: "file", Mode: 0o644, Mt: 1500000000, Size: len(b), data: b, Cid: cidOf(b)}
			}
			nodes := append(smallTree(), Node{P: "plugins", Kind: "dir", Mode: 0o755, Mt: 1500000000}, Node{P: "plugins/core", Kind: "dir", Mode: 0o755, Mt: 1500000000},
				Node{P: "plugins/core-extras", Kind: "dir", Mode: 0o755, Mt: 1500000000}, mkf("plugins/core/init.lua", "core"), mkf("plugins/core-extras/init.lua", "extras"),
				mkf("plugins/core/x.lua", "x"))
			for _, d := range []string{"/usr/share/sibpkg/plugins", "/usr/share/sibpkg/plugins/"} {
				c := baseCfg("sibpkg")
				c.Entries = []Entry{plain, {Type: "file", Src: "plugins/*/init.lua", Dst: d}}
				add(c, nodes, "sibling-prefix-dirs")
			}
		}
		// one file declared once per packager, with another type each time; config destinations containing blanks; an empty
		// file that sorts after a non-empty one
		{
			c := baseCfg("perpkgr")
			c.Entries = []Entry{plain, {Type: "config", Src: "src/app.conf", Dst: "/etc/perpkgr/app.conf", Tag: "deb"}, {Type: "config|noreplace", Src: "src/app.conf", Dst: "/etc/perpkgr/app.conf", Tag: "rpm"},
				{Type: "file", Src: "src/app.conf", Dst: "/etc/perpkgr/app.conf", Tag: "apk"}, {Type: "config|missingok", Src: "src/app.conf", Dst: "/etc/perpkgr/app.conf", Tag: "ipk"},
				{Type: "config", Src: "src/app.conf", Dst: "/etc/perpkgr/app.conf", Tag: "archlinux"}}
			add(c, smallTree(), "per-packager-types")
			c2 := baseCfg("blankconf")
			c2.NoGlob = true
			c2.Entries = []Entry{plain, {Type: "config", Src: "src/app.conf", Dst: "/etc/blank conf/app conf.conf"}, {Type: "config|noreplace", Src: "src/extra.conf", Dst: "/etc/blank conf/second one"},
				{Type: "config", Src: "src/app.conf", Dst: "/etc/blankconf/plain.conf"}, {Type: "file", Src: "src/bin", Dst: "/usr/share/blank conf/a file"}}
			add(c2, smallTree(), "blank-in-config-path")
			c3 := baseCfg("emptylast")
			c3.Entries = []Entry{{Type: "file", Src: "src/bin", Dst: "/usr/share/emptylast/a-nonempty"}, {Type: "file", Src: "src/empty", Dst: "/usr/share/emptylast/z-empty"},
				{Type: "file", Src: "src/empty", Dst: "/usr/share/emptylast/m-empty"}, {Type: "config", Src: "src/app.conf", Dst: "/usr/share/emptylast/n.conf"}}
			add(c3, smallTree(), "empty-after-nonempty")
		}
		// a directory as the source of a file entry: with a destination that ends in a slash every file found below it goes
		// directly into that directory; without the slash the structure is kept
		for _, d := range []string{"/usr/share/flatpkg/", "/usr/share/flatpkg"} {
			for _, ty := range []string{"file", "config"} {
				c := baseCfg("flatpkg")
				c.Entries = []Entry{plain, {Type: ty, Src: "src/sub", Dst: d}}
				add(c, smallTree(), "dir-source")
			}
		}
		// typed entries whose source is itself a symbolic link to a file
		for _, ty := range []string{"doc", "licence", "license", "readme", "config", "config|noreplace", "file"} {
			c := baseCfg("lnksrcpkg")
			c.Entries = []Entry{plain, {Type: ty, Src: "src/sub/lnk", Dst: "/usr/share/lnksrcpkg/item"}}
			add(c, smallTree(), "symlink-source")
		}
		// names with characters that mean something to printf-style formatting, shells and globs
		{
			c := baseCfg("pctpkg")
			c.NoGlob = true
			c.Entries = []Entry{plain, {Type: "file", Src: "src/app.conf", Dst: "/usr/share/pctpkg/release%20notes.txt"},
				{Type: "file", Src: "src/extra.conf", Dst: "/usr/share/pctpkg/100%done"}, {Type: "config", Src: "src/app.conf", Dst: "/etc/pctpkg/%s.conf"},
				{Type: "file", Src: "src/empty", Dst: "/usr/share/pctpkg/%d%%"}, {Type: "symlink", Src: "100%done", Dst: "/usr/share/pctpkg/%v"},
				{Type: "dir", Dst: "/var/lib/pctpkg/%x"}, {Type: "file", Src: "src/bin", Dst: "/usr/share/pctpkg/a$b`c'd\"e;f&g"}}
			add(c, smallTree(), "percent-names")
		}
		// the generated Debian changelog and a content entry at its path (addressed to everyone / to rpm only): for deb the two
		// collide and nothing may be built; the other formats ship the entry
		for _, tag := range []string{"", "rpm", "deb"} {
			c := baseCfg("chlogclash")
			c.Changelog = []ChEntry{{"1.2.3", 1500000000, "Jane Doe <jane@example.org>", []string{"note"}}}
			c.Entries = []Entry{plain, {Type: "file", Src: "src/app.conf", Dst: "/usr/share/doc/chlogclash/changelog.Debian.gz", Tag: tag}}
			add(c, smallTree(), "changelog-clash")
		}
		// the package mtime given through SOURCE_DATE_EPOCH (0: the epoch itself)
		for _, sde := range []int{0, 1234567890} {
			c := baseCfg("sdepkg")
			c.Pmt, c.PmtZero, c.UseSDE = sde, sde == 0, true
			c.Entries = []Entry{plain, {Type: "dir", Dst: "/var/lib/sdepkg"}, {Type: "symlink", Src: "/usr/bin/tool", Dst: "/usr/bin/t2"}, {Type: "tree", Src: "src/sub", Dst: "/usr/share/sdepkg"},
				{Type: "file", Src: "src/app.conf", Dst: "/etc/sdepkg/own-mtime.conf", Fi: Fi{Mt: 1300000000}, HasFi: true}}
			add(c, smallTree(), "source-date-epoch")
		}
		// a config glob that expands one entry to several files
		for _, ty := range []string{"config", "config|noreplace", "config|missingok"} {
			c := baseCfg("globcfg")
			c.Entries = []Entry{plain, {Type: ty, Src: "src/*.conf", Dst: "/etc/globcfg"}}
			add(c, smallTree(), "cfgglob")
		}
		// compression settings x payload shapes (empty, only directories, empty file, large file)
		shapes := []string{"empty", "dirsonly", "emptyfile", "plain"}
		if tier == "thorough" {
			shapes = append(shapes, "large")
		}
		debc := []string{"", "gzip", "xz", "zstd", "none"}
		rpmc := []string{"", "gzip", "gzip:9", "xz", "lzma", "zstd", "zstd:3", "gzip:1"}
		for si, sh := range shapes {
			for k := 0; k < 8; k++ {
				c := baseCfg("comppkg")
				c.DebCompression = debc[k%len(debc)]
				c.RpmCompression = rpmc[k]
				nodes := smallTree()
				switch sh {
				case "empty":
				case "dirsonly":
					c.Entries = []Entry{{Type: "dir", Dst: "/var/lib/comppkg"}, {Type: "dir", Dst: "/var/log/comppkg", Fi: Fi{Owner: "app", Group: "adm", Mode: 0o750}}}
				case "emptyfile":
					c.Entries = []Entry{{Type: "file", Src: "src/empty", Dst: "/var/lib/comppkg/empty"}}
				case "plain":
					c.Entries = []Entry{plain, {Type: "config", Src: "src/app.conf", Dst: "/etc/comppkg/app.conf"}, {Type: "file", Src: "src/sub", Dst: "/usr/share/comppkg"}}
				case "large":
					b := fileBytes(int64(si*100+k), 3<<20+12345)
					nodes = append(nodes, Node{P: "src/large.bin", Kind: "file", Mode: 0o644, Mt: 1500000002, Size: len(b), data: b, Cid: cidOf(b)})
					c.Entries = []Entry{plain, {Type: "file", Src: "src/large.bin", Dst: "/opt/comppkg/large.bin"}}
				}
				if k%2 == 1 {
					c.Changelog = []ChEntry{{"1.2.3", 1500000000, "Jane Doe <jane@example.org>", []string{"a note"}}}
				}
				add(c, nodes, "comp:"+sh)
			}
		}
		// symlink targets that do / do not exist on the build host (as directory, as file), with and without file_info
		for _, tgt := range []string{"/etc", "/etc/hostname", "/nonexistent/x", "relative/t", "../up/t", "/usr/bin", "."} {
			for _, fi := range []Fi{{}, {Owner: "app", Group: "app"}} {
				c := baseCfg("linkpkg")
				c.Entries = []Entry{plain, {Type: "symlink", Src: tgt, Dst: "/opt/linkpkg/link", Fi: fi, HasFi: fi != (Fi{})}}
				add(c, smallTree(), "symlink")
			}
		}
		// a file placed beneath a directory of a tree that is listed AFTER it (the tree's directory replaces the implied one),
		// and the other order
		for _, order := range []int{0, 1} {
			c := baseCfg("overlappkg")
			f := Entry{Type: "file", Src: "src/app.conf", Dst: "/opt/overlap/nested/extra.conf"}
			t := Entry{Type: "tree", Src: "src/sub", Dst: "/opt/overlap", Fi: Fi{Owner: "app", Group: "app"}, HasFi: true}
			if order == 0 {
				c.Entries = []Entry{f, t}
			} else {
				c.Entries = []Entry{t, f}
			}
			add(c, smallTree(), "tree-overlap")
		}
		// trees into directories the distribution owns
		for _, d := range []string{"/usr", "/etc", "/usr/share"} {
			c := baseCfg("fstreepkg")
			c.Entries = []Entry{{Type: "tree", Src: "src/sub", Dst: d, Fi: Fi{Owner: "app", Group: "app"}, HasFi: true}}
			add(c, smallTree(), "tree-fsowned")
		}
		// names beyond the fixed-width fields of the containers (tar: 100-byte name, 155-byte prefix, 100-byte link name;
		// 32-byte owner / group: the longest name Linux allows) and names outside ASCII
		{
			seg := "a-directory-name-of-forty-characters-xxxx" // 41
			long120 := "/opt/" + seg + "/" + seg + "/file-with-a-rather-long-name.txt"
			long270 := "/opt/" + seg + "/" + seg + "/" + seg + "/" + seg + "/" + seg + "/" + seg + "/deep-file.txt"
			c := baseCfg("longnamepkg")
			c.Entries = []Entry{plain,
				{Type: "file", Src: "src/app.conf", Dst: long120},
				{Type: "config", Src: "src/extra.conf", Dst: long270},
				{Type: "symlink", Src: long270, Dst: "/usr/bin/link-to-a-long-target"},
				{Type: "symlink", Src: "../" + seg + "/" + seg + "/" + seg + "/relative-long-target", Dst: long120 + ".lnk"},
				{Type: "dir", Dst: "/var/lib/" + seg + "/" + seg + "/" + seg, Fi: Fi{Owner: "an-owner-name-of-thirty-two-byte", Group: "a-group-name-of-thirty-two-bytes", Mode: 0o750}, HasFi: true},
				{Type: "file", Src: "src/bin", Dst: "/usr/bin/owned", Fi: Fi{Owner: "an-owner-name-of-thirty-two-byte", Group: "g"}, HasFi: true}}
			add(c, smallTree(), "long-names")
			c2 := baseCfg("unicodepkg")
			c2.Entries = []Entry{plain,
				{Type: "file", Src: "src/app.conf", Dst: "/usr/share/unicodepkg/h\u00e9llo w\u00f6rld.txt"},
				{Type: "file", Src: "src/extra.conf", Dst: "/usr/share/unicodepkg/\u0444\u0430\u0439\u043b/\u6587\u4ef6.conf"},
				{Type: "symlink", Src: "h\u00e9llo w\u00f6rld.txt", Dst: "/usr/share/unicodepkg/li\u00f1k"},
				{Type: "config", Src: "src/app.conf", Dst: "/etc/unicodepkg/caf\u00e9.conf"},
				{Type: "dir", Dst: "/var/lib/unicodepkg/\u00fcber"}}
			add(c2, smallTree(), "unicode-names")
		}
		{ // a changelog file that has no entries (yet): the package is still a well-formed archive
			c := baseCfg("chlogemptypkg")
			c.Changelog = []ChEntry{}
			c.Entries = []Entry{plain}
			add(c, smallTree(), "changelog-empty")
		}
		// signed packages are archives too: the signature member / segment / header in its place, everything else as before
		for variant := 0; variant < 7; variant++ {
			c := baseCfg("signedpkg")
			td := repoDir + "/internal/sign/testdata/"
			switch variant {
			case 0:
				c.DebSigKey = td + "privkey_unprotected.asc"
			case 1:
				c.DebSigKey, c.DebSigType = td+"privkey_unprotected.asc", "maint"
			case 2:
				c.DebSigKey, c.DebSigMethod = td+"privkey_unprotected.asc", "dpkg-sig"
			case 3:
				c.RpmSigKey = td + "privkey_unprotected.asc"
			case 4:
				c.ApkSigKey = td + "rsa_unprotected.priv"
			case 5:
				c.ApkSigKey, c.ApkSigKeyName = td+"rsa_unprotected.priv", "origin"
			case 6:
				c.DebSigKey, c.RpmSigKey, c.ApkSigKey = td+"privkey_unprotected.asc", td+"privkey_unprotected.asc", td+"rsa_unprotected.priv"
				c.DebCompression = "xz"
			}
			c.Entries = []Entry{plain, {Type: "config", Src: "src/app.conf", Dst: "/etc/signedpkg/app.conf"}, {Type: "tree", Src: "src/sub", Dst: "/usr/share/signedpkg"}}
			nodes := append(smallTree(), addScripts(rng, c, []string{"postinstall", "preremove"})...)
			add(c, nodes, "signed")
		}
		// a directory the configuration DECLARES is shipped as declared, also at a path the distribution owns
		for _, d := range []string{"/var/cache", "/usr/local/bin", "/opt", "/etc", "/usr/share/doc"} {
			c := baseCfg("fsdirpkg")
			c.Entries = []Entry{plain, {Type: "dir", Dst: d, Fi: Fi{Owner: "app", Group: "grp", Mode: 0o750}, HasFi: true}, {Type: "dir", Dst: d + "/fsdirpkg"}}
			add(c, smallTree(), "dir-fsowned")
		}
		// typed entries with expand: true (no reference in the values: nothing may change, least of all the type)
		for _, ty := range []string{"config", "config|noreplace", "config|missingok", "ghost", "doc", "symlink", "dir"} {
			c := baseCfg("expandpkg")
			e := Entry{Type: ty, Src: "src/app.conf", Dst: "/etc/expandpkg/item", Expand: true}
			switch ty {
			case "ghost", "dir":
				e.Src = ""
			case "symlink":
				e.Src = "/usr/bin/tool"
			}
			c.Entries = []Entry{plain, e}
			add(c, smallTree(), "expand-typed")
			// ... and addressed to one packager: opting in to expansion does not change whom the entry is for
			c2 := baseCfg("expandtag")
			e2 := e
			e2.Tag = []string{"rpm", "deb", "apk"}[len(ty)%3]
			c2.Entries = []Entry{plain, e2}
			add(c2, smallTree(), "expand-tagged")
		}
		// top-level names that sort before ".PKGINFO"; a symlink to an existing non-empty file followed by more members
		{
			c := baseCfg("toppkg")
			c.Entries = []Entry{{Type: "file", Src: "src/app.conf", Dst: "/.hidden-top"}, {Type: "file", Src: "src/app.conf", Dst: "/+plus"},
				{Type: "symlink", Src: "/etc/hostname", Dst: "/opt/a-link"}, {Type: "file", Src: "src/bin", Dst: "/opt/z-after-link"}, plain}
			add(c, smallTree(), "top-level")
		}
		// a directory declared BEFORE the entries beneath it keeps what was declared for it (mode, owner, group)
		{
			c := baseCfg("dirfirstpkg")
			c.Entries = []Entry{{Type: "dir", Dst: "/opt/dirfirst", Fi: Fi{Owner: "app", Group: "grp", Mode: 0o2750}, HasFi: true},
				{Type: "dir", Dst: "/opt/dirfirst/bin/", Fi: Fi{Mode: 0o700}, HasFi: true},
				{Type: "file", Src: "src/bin", Dst: "/opt/dirfirst/bin/tool"}, {Type: "config", Src: "src/app.conf", Dst: "/opt/dirfirst/etc/app.conf"},
				{Type: "dir", Dst: "/opt/dirfirst/etc", Fi: Fi{Owner: "cfg"}, HasFi: true}, plain}
			add(c, smallTree(), "dir-before-children")
		}
		// explicit special bits, every umask
		for _, um := range []int{0, 0o02, 0o22, 0o27, 0o77} {
			c := baseCfg("modepkg")
			c.Umask = um
			c.Entries = []Entry{
				{Type: "file", Src: "src/bin", Dst: "/usr/bin/suid", Fi: Fi{Mode: 0o4755}},
				{Type: "file", Src: "src/bin", Dst: "/usr/bin/sgid", Fi: Fi{Mode: 0o2755, Owner: "root", Group: "staff"}},
				{Type: "dir", Dst: "/var/tmp/sticky", Fi: Fi{Mode: 0o1777}},
				{Type: "file", Src: "src/sub/data.txt", Dst: "/usr/share/modepkg/data.txt"},
				{Type: "file", Src: "src/extra.conf", Dst: "/usr/share/modepkg/extra.conf", Fi: Fi{Owner: "app"}},
				{Type: "tree", Src: "src/sub", Dst: "/usr/share/modepkg/tree"},
				{Type: "file", Src: "src/bin", Dst: "/usr/bin/world-writable", Fi: Fi{Mode: 0o666}},
				{Type: "file", Src: "src/bin", Dst: "/usr/bin/all-bits", Fi: Fi{Mode: 0o777}},
				{Type: "config", Src: "src/app.conf", Dst: "/etc/modepkg/group-writable.conf", Fi: Fi{Mode: 0o664}},
				{Type: "ghost", Dst: "/var/log/modepkg.log"},
				{Type: "ghost", Dst: "/var/log/modepkg-declared.log", Fi: Fi{Mode: 0o600}},
			}
			add(c, smallTree(), "modes")
		}
	}
	return out
}

// slotOfNode: the script slot whose configured file is the node at path p ("" if none)
func slotOfNode(c *Cfg, p string) string {
	for slot, sp := range c.Scripts {
		if sp == p {
			return slot
		}
	}
	return ""
}
