package main

// Family "config": API-level traces of the Config machine
// (Parse -> Expand -> Defaults -> Get(f) -> Validate), serving C13 (overrides),
// C14 (version handling) and C16 (strict parsing, scoped expansion).

import (
	"bytes"
	"encoding/json"
	"fmt"
	"math/rand"
	"os"
	"os/exec"
	"path/filepath"
	"reflect"
	"sort"
	"strconv"
	"strings"

	"github.com/goreleaser/nfpm/v2"
)

func parseDoc(doc map[string]any, env map[string]string) (cfg nfpm.Config, y string, err error) {
	y = docYAML(doc)
	defer func() { // a parser that panics has neither accepted nor rejected the document: reported as an error of its own kind
		if r := recover(); r != nil {
			err = fmt.Errorf("PANIC in the parser: %v", r)
		}
	}()
	cfg, err = nfpm.ParseWithEnvMapping(strings.NewReader(y), func(k string) string { return env[k] })
	return cfg, y, err
}

// parseDocFile gives the same document to the file entry point (nfpm.ParseFileWithEnvMapping), once as the YAML text in a
// .yaml file and once rendered as JSON (which is YAML) in a .json file: accepted by all? by any? same Config as cfg?
func parseDocFile(dir string, doc map[string]any, y string, env map[string]string, cfg nfpm.Config, readerErr error) (all, any, same bool) {
	all, same = true, true
	js, jerr := json.Marshal(toJSONable(doc))
	for _, v := range []struct {
		name string
		text []byte
	}{{"probe.yaml", []byte(y)}, {"probe.json", js}} {
		if v.name == "probe.json" && jerr != nil {
			continue
		}
		p := filepath.Join(dir, v.name)
		if os.WriteFile(p, v.text, 0o644) != nil {
			return false, false, false
		}
		c2, err := func() (c nfpm.Config, err error) {
			defer func() {
				if r := recover(); r != nil {
					err = fmt.Errorf("PANIC in the parser: %v", r)
				}
			}()
			return nfpm.ParseFileWithEnvMapping(p, func(k string) string { return env[k] })
		}()
		if err != nil {
			all = false
			same = same && readerErr != nil
			continue
		}
		any = true
		same = same && readerErr == nil && len(snapDiff(snapshot(&cfg), snapshot(&c2))) == 0 && len(snapDiff(snapshot(&c2), snapshot(&cfg))) == 0
	}
	return
}

func envM(env map[string]string) []M {
	out := make([]M, 0)
	for _, k := range sortedKeys(env) {
		out = append(out, M{"k": k, "v": env[k]})
	}
	return out
}

func isLeaf(k KeyPath) bool {
	switch k.Kind {
	case "struct":
		return false
	}
	return true
}

func hasListSeg(k KeyPath) bool {
	for _, s := range k.Segs {
		if s == "[]" {
			return true
		}
	}
	return false
}

// ---------------------------------------------------------------- C13

func altStr(v reflect.Value) any {
	out := make([]any, 0)
	for i := 0; i < v.Len(); i++ {
		e := v.Index(i)
		out = append(out, fmt.Sprintf("%d:%s:%s", e.FieldByName("Priority").Int(), e.FieldByName("Target").String(), e.FieldByName("LinkName").String()))
	}
	return out
}

func altDoc(v any) any {
	out := make([]any, 0)
	for _, e := range v.([]any) {
		m := e.(map[string]any)
		out = append(out, fmt.Sprintf("%d:%s:%s", m["priority"].(int), m["target"].(string), m["link_name"].(string)))
	}
	return out
}

func emptyOf(kind string) any {
	switch kind {
	case "string", "ptr":
		return ""
	case "list", "structlist", "contents":
		return []any{}
	case "bool":
		return false
	case "int", "mode", "time":
		return 0
	case "map":
		return []M{}
	}
	return ""
}

func emptyDoc(kind string) any {
	switch kind {
	case "string", "ptr":
		return ""
	case "list", "structlist", "contents":
		return []any{}
	case "bool":
		return false
	case "int":
		return 0
	case "mode":
		return rawYAML("0")
	case "map":
		return map[string]any{}
	}
	return ""
}

func readLeaf(info *nfpm.Info, k KeyPath) any {
	v, ok := fieldByYAML(reflect.ValueOf(info), k.Segs)
	if !ok {
		return emptyOf(k.Kind)
	}
	switch k.Kind {
	case "structlist":
		return altStr(v)
	case "ptr":
		x := leafM(v, "ptr")
		if x == "<nil>" {
			return ""
		}
		return x
	}
	return leafM(v, k.Kind)
}

func docM(v any, kind string) any {
	if kind == "structlist" {
		return altDoc(v)
	}
	return docValueM(v, kind)
}

// seed and tier of the run (set by famConfig) for the randomised multi-leaf probes
var getSeed int64 = 1
var getTier = "quick"

func famGet(tr *Trace, id *int) int {
	leaves := overridableKeyPaths()
	n := 0
	for _, k := range leaves {
		if !isLeaf(k) || hasListSeg(k) || k.Kind == "contents" {
			continue
		}
		for fi, f := range allFormats {
			g := allFormats[(fi+1)%5]
			h := allFormats[(fi+2)%5]
			for _, baseSet := range []bool{false, true} {
				for _, ovState := range []string{"noblock", "noleaf", "empty", "set", "nullblock", "emptyblock"} {
					doc := minimalDoc()
					var base any = emptyDoc(k.Kind)
					if baseSet {
						base = sampleValue(k, 1)
						setPath(doc, k.Segs, base, "")
					}
					ovg := sampleValue(k, 2)
					setPath(doc, append([]string{"overrides", g}, k.Segs...), ovg, "")
					var ovf any = emptyDoc(k.Kind)
					other := "suggests"
					if k.Segs[0] == "suggests" {
						other = "depends"
					}
					switch ovState {
					case "noleaf":
						setPath(doc, []string{"overrides", f, other}, []any{"zz"}, "")
					case "empty":
						setPath(doc, append([]string{"overrides", f}, k.Segs...), ovf, "")
					case "set":
						ovf = sampleValue(k, 3)
						setPath(doc, append([]string{"overrides", f}, k.Segs...), ovf, "")
					case "nullblock": // `f:` with nothing below it
						doc["overrides"].(map[string]any)[f] = rawYAML("")
					case "emptyblock": // `f: {}`
						doc["overrides"].(map[string]any)[f] = map[string]any{}
					}
					*id++
					n++
					cfg, y, err := parseDoc(doc, nil)
					ev := M{"ev": "get", "id": *id, "leaf": k.String(), "kind": k.Kind, "fmt": f, "g": g, "h": h, "ovstate": ovState,
						"base": docM(base, k.Kind), "ovf": docM(ovf, k.Kind), "ovg": docM(ovg, k.Kind),
						"obs": emptyOf(k.Kind), "obsg": emptyOf(k.Kind), "obsh": emptyOf(k.Kind), "obs2": emptyOf(k.Kind), "err": ""}
					if err != nil {
						ev["err"] = safeStr(err.Error())
					} else {
						// the other format first: its override block must not leak into f
						ig, e1 := cfg.Get(g)
						inf, e2 := cfg.Get(f)
						ih, e3 := cfg.Get(h)
						inf2, e4 := cfg.Get(f)
						if e1 != nil || e2 != nil || e3 != nil || e4 != nil {
							ev["err"] = "Get failed"
						} else {
							ev["obs"], ev["obsg"], ev["obsh"], ev["obs2"] = readLeaf(inf, k), readLeaf(ig, k), readLeaf(ih, k), readLeaf(inf2, k)
						}
					}
					tr.Emit(*id, []M{{"ev": "case", "id": *id, "fam": "get", "leaf": k.String()}, ev, {"ev": "endcase"}})
					if *id%101 == 0 {
						tr.Index(*id, M{"yaml": y})
					}
				}
			}
		}
	}
	// several leaves at once: the base sets EVERY overridable leaf, the block of f overrides a random subset, the block of g
	// another one; every leaf is then read back - the overridden ones changed, all the others (siblings inside the same nested
	// block included) are exactly the base ("nothing else changed")
	{
		var ls []KeyPath
		for _, k := range leaves {
			if isLeaf(k) && !hasListSeg(k) && k.Kind != "contents" {
				ls = append(ls, k)
			}
		}
		rng := rand.New(rand.NewSource(getSeed))
		rounds := 3
		if getTier == "thorough" {
			rounds = 40
		}
		for fi, f := range allFormats {
			g := allFormats[(fi+1)%5]
			h := allFormats[(fi+2)%5]
			for r := 0; r < rounds; r++ {
				doc := minimalDoc()
				inF, inG := map[string]bool{}, map[string]bool{}
				for _, k := range ls {
					setPath(doc, k.Segs, sampleValue(k, 1), "")
					if rng.Intn(3) == 0 {
						inF[k.String()] = true
						setPath(doc, append([]string{"overrides", f}, k.Segs...), sampleValue(k, 3), "")
					}
					if rng.Intn(3) == 0 {
						inG[k.String()] = true
						setPath(doc, append([]string{"overrides", g}, k.Segs...), sampleValue(k, 2), "")
					}
				}
				cfg, y, err := parseDoc(doc, nil)
				var ig, inf, ih, inf2 *nfpm.Info
				if err == nil {
					var e1, e2, e3, e4 error
					ig, e1 = cfg.Get(g)
					inf, e2 = cfg.Get(f)
					ih, e3 = cfg.Get(h)
					inf2, e4 = cfg.Get(f)
					if e1 != nil || e2 != nil || e3 != nil || e4 != nil {
						err = fmt.Errorf("Get failed")
					}
				}
				*id++
				n++
				evs := []M{{"ev": "case", "id": *id, "fam": "get", "leaf": "multi"}}
				for _, k := range ls {
					base := sampleValue(k, 1)
					var ovf any = emptyDoc(k.Kind)
					st := "noleaf"
					if inF[k.String()] {
						ovf, st = sampleValue(k, 3), "set"
					}
					var ovg any = emptyDoc(k.Kind)
					if inG[k.String()] {
						ovg = sampleValue(k, 2)
					}
					ev := M{"ev": "get", "id": *id, "leaf": k.String(), "kind": k.Kind, "fmt": f, "g": g, "h": h, "ovstate": st,
						"base": docM(base, k.Kind), "ovf": docM(ovf, k.Kind), "ovg": docM(ovg, k.Kind),
						"obs": emptyOf(k.Kind), "obsg": emptyOf(k.Kind), "obsh": emptyOf(k.Kind), "obs2": emptyOf(k.Kind), "err": ""}
					if err != nil {
						ev["err"] = safeStr(err.Error())
					} else {
						ev["obs"], ev["obsg"], ev["obsh"], ev["obs2"] = readLeaf(inf, k), readLeaf(ig, k), readLeaf(ih, k), readLeaf(inf2, k)
					}
					evs = append(evs, ev)
				}
				evs = append(evs, M{"ev": "endcase"})
				tr.Emit(*id, evs)
				if r == 0 {
					tr.Index(*id, M{"yaml": y})
				}
			}
		}
	}
	// contents: lists wholesale, per-packager entries
	ent := func(dst, tag string) map[string]any {
		m := map[string]any{"src": "/nonexistent/s", "dst": dst}
		if tag != "" {
			m["packager"] = tag
		}
		return m
	}
	cstr := func(cs []any) []any {
		out := make([]any, 0)
		for _, e := range cs {
			m := e.(map[string]any)
			t, _ := m["packager"].(string)
			out = append(out, m["dst"].(string)+"|"+t)
		}
		return out
	}
	for fi, f := range allFormats {
		g := allFormats[(fi+1)%5]
		h := allFormats[(fi+2)%5]
		for _, ovState := range []string{"noblock", "noleaf", "empty", "set"} {
			doc := minimalDoc()
			base := []any{ent("/b/all", ""), ent("/b/f", f), ent("/b/g", g)}
			doc["contents"] = base
			ovg := []any{ent("/g/all", ""), ent("/g/f", f)}
			setPath(doc, []string{"overrides", g, "contents"}, ovg, "")
			ovf := []any{}
			switch ovState {
			case "noleaf":
				setPath(doc, []string{"overrides", f, "suggests"}, []any{"zz"}, "")
			case "empty":
				setPath(doc, []string{"overrides", f, "contents"}, ovf, "")
			case "set":
				ovf = []any{ent("/f/all", ""), ent("/f/g", g), ent("/f/f", f)}
				setPath(doc, []string{"overrides", f, "contents"}, ovf, "")
			}
			*id++
			n++
			cfg, _, err := parseDoc(doc, nil)
			ev := M{"ev": "getcontents", "id": *id, "fmt": f, "g": g, "h": h, "ovstate": ovState, "base": cstr(base), "ovf": cstr(ovf), "ovg": cstr(ovg),
				"obs": []any{}, "obsh": []any{}, "err": ""}
			if err != nil {
				ev["err"] = safeStr(err.Error())
			} else {
				rd := func(i *nfpm.Info) []any {
					out := make([]any, 0)
					for _, c := range i.Contents {
						out = append(out, c.Destination+"|"+c.Packager)
					}
					return out
				}
				_, _ = cfg.Get(g)
				inf, _ := cfg.Get(f)
				ih, _ := cfg.Get(h)
				ev["obs"], ev["obsh"] = rd(inf), rd(ih)
			}
			tr.Emit(*id, []M{{"ev": "case", "id": *id, "fam": "getcontents"}, ev, {"ev": "endcase"}})
		}
	}
	// validation rejects an override block for a format that has no registered packager
	for _, of := range []string{"deb", "rpm", "apk", "archlinux", "ipk", "nope", "debian", "arch", "DEB", "zst", "pkg", "a", "zz", "ipkg", "rp"} {
		for _, block := range []string{"set", "null", "empty"} { // a block with a setting, `of:` with nothing below it, `of: {}`
			doc := minimalDoc()
			switch block {
			case "set":
				setPath(doc, []string{"overrides", of, "depends"}, []any{"x"}, "")
			case "null":
				doc["overrides"] = map[string]any{of: rawYAML("")}
			case "empty":
				doc["overrides"] = map[string]any{of: map[string]any{}}
			}
			*id++
			n++
			cfg, _, err := parseDoc(doc, nil)
			msg := ""
			if err == nil {
				if verr := cfg.Validate(); verr != nil {
					msg = safeStr(verr.Error())
				}
			} else {
				msg = "parse: " + safeStr(err.Error())
			}
			reg := false
			for _, f := range allFormats {
				if f == of {
					reg = true
				}
			}
			tr.Emit(*id, []M{{"ev": "case", "id": *id, "fam": "validate"}, {"ev": "validate", "ovfmt": of, "block": block, "registered": reg, "err": msg}, {"ev": "endcase"}})
		}
	}
	return n
}

// ---------------------------------------------------------------- C14

type verTuple struct {
	Version, Schema, Pre, Meta, Release, Epoch string
}

func (v verTuple) M() M {
	return M{"version": v.Version, "schema": v.Schema, "prerelease": v.Pre, "metadata": v.Meta, "release": v.Release, "epoch": v.Epoch}
}

type verObs struct {
	Split               [3]string
	Deb, Ipk, Apk, Arch string
	RpmV, RpmR, RpmE    string
	Err                 string
	Fname               map[string]string
}

func buildVer(v verTuple) verObs {
	o := verObs{Fname: map[string]string{}}
	mk := func() *nfpm.Info {
		i := &nfpm.Info{Name: "vpkg", Arch: "amd64", Version: v.Version, VersionSchema: v.Schema, Prerelease: v.Pre, VersionMetadata: v.Meta,
			Release: v.Release, Epoch: v.Epoch, Maintainer: "M <m@example.org>", Description: "d"}
		i.RPM.BuildHost = "h"
		return nfpm.WithDefaults(i)
	}
	i0 := mk()
	o.Split = [3]string{i0.Version, i0.Prerelease, i0.VersionMetadata}
	for _, f := range allFormats {
		pk, _ := nfpm.Get(f)
		o.Fname[f] = pk.ConventionalFileName(mk())
		var buf bytes.Buffer
		if err := pk.Package(mk(), &buf); err != nil {
			o.Err += f + ": " + err.Error() + "; "
			continue
		}
		evs, err := emitFormat(f, buf.Bytes(), "", 0)
		if err != nil {
			o.Err += f + ": decode: " + err.Error() + "; "
			continue
		}
		get := func(in, key string) string {
			for _, e := range evs {
				if e["ev"] == "meta" && e["in"] == in && e["key"] == key {
					vals := e["values"].([]any)
					if len(vals) > 0 {
						return vals[0].(string)
					}
				}
			}
			return ""
		}
		switch f {
		case "deb":
			o.Deb = get("control", "Version")
		case "ipk":
			o.Ipk = get("control", "Version")
		case "apk":
			o.Apk = get("pkginfo", "pkgver")
		case "archlinux":
			o.Arch = get("pkginfo", "pkgver")
		case "rpm":
			o.RpmV, o.RpmR, o.RpmE = get("hdr", "1001"), get("hdr", "1002"), get("hdr", "1003")
		}
	}
	return o
}

func (o verObs) M() M {
	return M{"split": M{"version": o.Split[0], "pre": o.Split[1], "meta": o.Split[2]}, "deb": o.Deb, "ipk": o.Ipk, "apk": o.Apk, "arch": o.Arch,
		"rpm": M{"version": o.RpmV, "release": o.RpmR, "epoch": o.RpmE}, "err": safeStr(o.Err),
		"fname": M{"deb": o.Fname["deb"], "rpm": o.Fname["rpm"], "apk": o.Fname["apk"], "archlinux": o.Fname["archlinux"], "ipk": o.Fname["ipk"]}}
}

var dpkgPath, _ = exec.LookPath("dpkg")

func dpkgCmp(a, b string) string {
	if dpkgPath == "" || a == "" || b == "" {
		return "na"
	}
	for _, op := range []string{"lt", "eq", "gt"} {
		if exec.Command(dpkgPath, "--compare-versions", a, op, b).Run() == nil {
			return op
		}
	}
	return "na"
}

// rpmvercmp, ported from rpm's lib/rpmvercmp.c for cross-checking the TLA+ transcription
func rpmvercmp(a, b string) int {
	if a == b {
		return 0
	}
	isAlnum := func(c byte) bool { return c >= '0' && c <= '9' || c >= 'a' && c <= 'z' || c >= 'A' && c <= 'Z' }
	isDigit := func(c byte) bool { return c >= '0' && c <= '9' }
	isAlpha := func(c byte) bool { return c >= 'a' && c <= 'z' || c >= 'A' && c <= 'Z' }
	i, j := 0, 0
	for i < len(a) || j < len(b) {
		for i < len(a) && !isAlnum(a[i]) && a[i] != '~' && a[i] != '^' {
			i++
		}
		for j < len(b) && !isAlnum(b[j]) && b[j] != '~' && b[j] != '^' {
			j++
		}
		ta, tb := i < len(a) && a[i] == '~', j < len(b) && b[j] == '~'
		if ta || tb {
			if !ta {
				return 1
			}
			if !tb {
				return -1
			}
			i++
			j++
			continue
		}
		ca, cb := i < len(a) && a[i] == '^', j < len(b) && b[j] == '^'
		if ca || cb {
			if i >= len(a) {
				return -1
			}
			if j >= len(b) {
				return 1
			}
			if !ca {
				return 1
			}
			if !cb {
				return -1
			}
			i++
			j++
			continue
		}
		if i >= len(a) || j >= len(b) {
			break
		}
		si, sj := i, j
		var isnum bool
		if isDigit(a[i]) {
			for i < len(a) && isDigit(a[i]) {
				i++
			}
			for j < len(b) && isDigit(b[j]) {
				j++
			}
			isnum = true
		} else {
			for i < len(a) && isAlpha(a[i]) {
				i++
			}
			for j < len(b) && isAlpha(b[j]) {
				j++
			}
		}
		sa, sb := a[si:i], b[sj:j]
		if len(sb) == 0 {
			if isnum {
				return 1
			}
			return -1
		}
		if isnum {
			sa, sb = strings.TrimLeft(sa, "0"), strings.TrimLeft(sb, "0")
			if len(sa) > len(sb) {
				return 1
			}
			if len(sb) > len(sa) {
				return -1
			}
		}
		if c := strings.Compare(sa, sb); c != 0 {
			return c
		}
	}
	if i >= len(a) && j >= len(b) {
		return 0
	}
	if i >= len(a) {
		return -1
	}
	return 1
}

func rpmEvrCmp(a, b verObs) int {
	ea, _ := strconv.Atoi(a.RpmE)
	eb, _ := strconv.Atoi(b.RpmE)
	if ea != eb {
		if ea < eb {
			return -1
		}
		return 1
	}
	if c := rpmvercmp(a.RpmV, b.RpmV); c != 0 {
		return c
	}
	return rpmvercmp(a.RpmR, b.RpmR)
}

func genVersions(rng *rand.Rand, n int) []verTuple {
	var out []verTuple
	nums := []string{"0", "1", "2", "9", "10", "11", "123"}
	preIds := []string{"rc1", "rc", "1", "0", "beta", "alpha-1", "x-y", "rc10", "rc9", "2a", "a2", "dev", "RC1", "Beta", "SNAPSHOT", "4-gdeadbee", "12-g0a1b2c3", "4", "0-1"}
	metaIds := []string{"git", "5", "abc123", "b7", "2024", "001", "p1", "cvs2", "Build", "git-0a1b"}
	ident := func(pool []string, k int) string {
		var p []string
		for i := 0; i < k; i++ {
			p = append(p, pool[rng.Intn(len(pool))])
		}
		return strings.Join(p, ".")
	}
	for i := 0; i < n; i++ {
		v := nums[rng.Intn(len(nums))]
		parts := 1 + rng.Intn(3)
		for p := 1; p < parts; p++ {
			v += "." + nums[rng.Intn(len(nums))]
		}
		if rng.Intn(3) == 0 {
			v = "v" + v
		}
		if rng.Intn(2) == 0 {
			v += "-" + ident(preIds, 1+rng.Intn(3))
		}
		if rng.Intn(3) == 0 {
			v += "+" + ident(metaIds, 1+rng.Intn(2))
		}
		t := verTuple{Version: v}
		if rng.Intn(4) == 0 {
			t.Pre = ident(preIds, 1+rng.Intn(2))
		}
		if rng.Intn(4) == 0 {
			t.Meta = ident(metaIds, 1)
		}
		t.Release = []string{"", "", "1", "2", "10", "2.el9", "0.1", "0.1.rc1"}[rng.Intn(8)]
		t.Epoch = []string{"", "", "0", "1", "2", "10"}[rng.Intn(6)]
		if rng.Intn(8) == 0 {
			t.Schema = "none"
		} else if rng.Intn(4) == 0 {
			t.Schema = "semver"
		}
		out = append(out, t)
	}
	// version-embedded vs explicit prerelease / metadata: every combination
	for mask := 0; mask < 16; mask++ {
		t := verTuple{Version: "v2.3.4"}
		if mask&1 != 0 {
			t.Version += "-rc.1"
		}
		if mask&2 != 0 {
			t.Version += "+git.abc"
		}
		if mask&4 != 0 {
			t.Pre = "beta2"
		}
		if mask&8 != 0 {
			t.Meta = "b77"
		}
		out = append(out, t)
	}
	// epochs as written: leading zeros, large
	for _, e := range []string{"0", "00", "010", "08", "7", "12", "99999"} {
		out = append(out, verTuple{Version: "1.2.3", Epoch: e})
	}
	// near-misses that must not parse, and edge shapes that must
	for _, s := range []string{"1.2.3.4", "01.2.3", "1.02.3", "1.2.03", "1.2.3-", "1.2.3-01", "1.2.3-rc..1", "1.2.3+", "1.2.3+a..b", " 1.2.3", "1.2.3 ", "1.2.x",
		"v", "1.2.3-rc_1", "1.2.3+meta+meta", "1.2.3-rc.01", "1.2.3-rc.0", "1.2.3-0", "1.2.3-00", "1.2.3-0a", "1..3", ".1.2", "1.2.", "V1.2.3", "vv1.2.3",
		"1.2.3-é", "1.2.3+é", "2024.01.02", "1.2.3-rc.1+b.2", "0.0.0", "1", "v2", "1.0", "1.2.3-alpha.beta.1", "1.2.3----", "1.2.3+---", "99999999999.1.1",
		"1.2.3-rc1-2", "1.2.3+001", "1.2.3-1.2.3", "", "v1.2.3-rc0"} {
		for _, sch := range []string{"", "none", "semver"} {
			out = append(out, verTuple{Version: s, Schema: sch})
			out = append(out, verTuple{Version: s, Schema: sch, Pre: "x1", Meta: "m1", Release: "2", Epoch: "1"})
		}
	}
	// an epoch of zero together with a prerelease; releases that are not plain integers
	out = append(out, verTuple{Version: "v1.4.0-rc1", Epoch: "0"}, verTuple{Version: "1.4.0", Pre: "beta2", Epoch: "0", Release: "2"}, verTuple{Version: "1.4.0-rc1", Epoch: "00"},
		verTuple{Version: "1.2.3", Release: "2.el9"}, verTuple{Version: "1.2.3-rc1", Release: "0.1"}, verTuple{Version: "1.2.3", Release: "0.1.rc1", Epoch: "1"})
	// coincidences between components: a prerelease equal to the release, explicit components that happen to end the
	// verbatim version, verbatim versions containing a tilde
	out = append(out, verTuple{Version: "1.2.3-1", Release: "1"}, verTuple{Version: "3.0.0-2", Release: "2"}, verTuple{Version: "1.2.3", Pre: "7", Release: "7"},
		verTuple{Version: "1.2.1", Schema: "none", Pre: "1"}, verTuple{Version: "2024.5", Schema: "none", Meta: "5"}, verTuple{Version: "4.0b", Schema: "none", Pre: "b", Release: "1"},
		verTuple{Version: "1.2.1", Schema: "none", Pre: "1", Meta: "1"}, verTuple{Version: "1.0.0~rc1", Schema: "none"}, verTuple{Version: "1.0.0~rc1"},
		verTuple{Version: "1.2.3.4~git20240101", Release: "1"}, verTuple{Version: "2.0~beta+x", Schema: "none", Release: "3"})
	return out
}

func stripPre(t verTuple) verTuple {
	r := t
	r.Pre = ""
	v := t.Version
	meta := ""
	if i := strings.Index(v, "+"); i >= 0 {
		meta = v[i:]
		v = v[:i]
	}
	if t.Schema != "none" {
		if i := strings.Index(v, "-"); i >= 0 {
			v = v[:i]
		}
	}
	r.Version = v + meta
	return r
}

func famVer(tr *Trace, id *int, seed int64, tier string) int {
	rng := rand.New(rand.NewSource(seed + 17))
	n := 250
	if tier == "thorough" {
		n = 6000
	}
	tuples := genVersions(rng, envInt("VERIF_VER_CASES", n))
	type job struct {
		id int
		t  verTuple
	}
	var jobs []job
	for _, t := range tuples {
		*id++
		jobs = append(jobs, job{*id, t})
	}
	parallel(len(jobs), 16, func(i int) {
		j := jobs[i]
		o := buildVer(j.t)
		evs := []M{{"ev": "case", "id": j.id, "fam": "ver"}, {"ev": "ver", "cfg": j.t.M(), "obs": o.M()}}
		cmpEv := func(kind string, a, b verObs, ta, tb verTuple) M {
			return M{"ev": "cmp", "kind": kind, "a": a.M(), "b": b.M(), "ca": ta.M(), "cb": tb.M(),
				"dpkg": dpkgCmp(a.Deb, b.Deb), "dpkg_ipk": dpkgCmp(a.Ipk, b.Ipk), "rpmcmp": rpmEvrCmp(a, b)}
		}
		if o.Err == "" && o.Split[1] != "" && !strings.Contains(o.Split[0], "-") {
			rt := stripPre(j.t)
			ro := buildVer(rt)
			if ro.Err == "" && ro.Split[1] == "" && ro.Split[0] == o.Split[0] {
				evs = append(evs, cmpEv("pre_vs_release", o, ro, j.t, rt))
			}
		}
		if o.Err == "" && j.t.Schema != "none" && i%3 == 0 {
			// a higher epoch with a lower version
			ht := verTuple{Version: "0.0.1", Release: j.t.Release, Epoch: strconv.Itoa(atoi(j.t.Epoch) + 1)}
			ho := buildVer(ht)
			if ho.Err == "" {
				evs = append(evs, cmpEv("epoch", o, ho, j.t, ht))
			}
		}
		evs = append(evs, M{"ev": "endcase"})
		tr.Emit(j.id, evs)
	})
	cnt := len(jobs)
	// the version is expanded from the environment BEFORE it is split
	for _, pr := range []struct{ ver, pre, meta string }{{"${VER}", "", ""}, {"v${VER}", "", ""}, {"2.0.0-beta.2", "${EMPTYV}", ""}, {"2.0.0-beta.2+b1", "", "${EMPTYV}"},
		{"${VER}", "${PRE}", ""}, {"1.2.3", "${PRE}", "m${EMPTYV}"}} {
		for _, env := range []map[string]string{{"VER": "1.2.3-rc1+b5", "PRE": "alpha"}, {"VER": "4.5", "PRE": ""}, {}} {
			doc := map[string]any{"name": "probe", "arch": "amd64", "version": pr.ver}
			if pr.pre != "" {
				doc["prerelease"] = pr.pre
			}
			if pr.meta != "" {
				doc["version_metadata"] = pr.meta
			}
			cfg, _, err := parseDoc(doc, env)
			*id++
			cnt++
			ev := M{"ev": "expandsplit", "version": pr.ver, "prerelease": pr.pre, "metadata": pr.meta, "env": envM(env), "err": "", "obs": M{"version": "", "pre": "", "meta": ""}}
			if err != nil {
				ev["err"] = safeStr(err.Error())
			} else {
				ev["obs"] = M{"version": cfg.Version, "pre": cfg.Prerelease, "meta": cfg.VersionMetadata}
			}
			tr.Emit(*id, []M{{"ev": "case", "id": *id, "fam": "expandsplit"}, ev, {"ev": "endcase"}})
		}
	}
	// numeric ordering of major.minor.patch
	nums := []int{0, 1, 2, 9, 10, 11, 100}
	for _, pos := range []int{0, 1, 2} {
		for i := 0; i+1 < len(nums); i++ {
			for _, extra := range []verTuple{{}, {Pre: "rc1"}, {Release: "3", Epoch: "2"}, {Meta: "git5"}} {
				mk := func(n int) verTuple {
					p := []string{"3", "4", "5"}
					p[pos] = strconv.Itoa(n)
					t := extra
					t.Version = strings.Join(p, ".")
					return t
				}
				ta, tb := mk(nums[i]), mk(nums[i+1])
				a, b := buildVer(ta), buildVer(tb)
				*id++
				cnt++
				tr.Emit(*id, []M{{"ev": "case", "id": *id, "fam": "vernum"},
					{"ev": "cmp", "kind": "numeric", "a": a.M(), "b": b.M(), "ca": ta.M(), "cb": tb.M(), "dpkg": dpkgCmp(a.Deb, b.Deb), "dpkg_ipk": dpkgCmp(a.Ipk, b.Ipk), "rpmcmp": rpmEvrCmp(a, b)},
					{"ev": "endcase"}})
			}
		}
	}
	return cnt
}

func atoi(s string) int { n, _ := strconv.Atoi(s); return n }

// ---------------------------------------------------------------- C16

func misspell(k string) []string {
	return []string{k + "x", k + "_", strings.ToUpper(k[:1]) + k[1:], "x-" + k}
}

func famParse(tr *Trace, id *int) int {
	n := 0
	// every probe below hands the parser a mapping of its own: what the PROCESS environment holds is not part of it
	for _, nm := range []string{"NFPM_PASSPHRASE", "NFPM_DEB_PASSPHRASE", "NFPM_RPM_PASSPHRASE", "NFPM_APK_PASSPHRASE", "VAR", "OTHER", "GOARM"} {
		os.Setenv(nm, "from-the-process-environment-"+nm)
		defer os.Unsetenv(nm)
	}
	paths := configKeyPaths("yaml")
	emit := func(ev M) {
		*id++
		n++
		tr.Emit(*id, []M{{"ev": "case", "id": *id, "fam": ev["ev"]}, ev, {"ev": "endcase"}})
	}
	fdir, _ := os.MkdirTemp("", "vparse")
	defer os.RemoveAll(fdir)
	// (a) every key path accepted as written; a misspelt / unknown sibling at the same level rejected - by the reader entry
	// point and by the file entry point alike
	for _, k := range paths {
		for _, f := range []string{"deb", "ipk"} {
			if !strings.Contains(k.String(), "<fmt>") && f != "deb" {
				continue
			}
			if k.Kind != "struct" {
				doc := minimalDoc()
				if k.Segs[0] == "version_schema" {
					delete(doc, "version_schema")
				}
				setPath(doc, k.Segs, sampleValue(k, 1), f)
				cfg, y, err := parseDoc(doc, nil)
				msg := ""
				if err != nil {
					msg = safeStr(err.Error())
				}
				afAll, afAny, same := parseDocFile(fdir, doc, y, nil, cfg, err)
				emit(M{"ev": "probe", "kind": "known", "path": strings.ReplaceAll(k.String(), "<fmt>", f), "accepted": err == nil, "err": msg, "accepted_file_all": afAll, "accepted_file_any": afAny, "file_same": same})
			}
			last := k.Segs[len(k.Segs)-1]
			if last == "[]" || last == "<fmt>" {
				continue
			}
			for _, bad := range misspell(last) {
				segs := append(append([]string{}, k.Segs[:len(k.Segs)-1]...), bad)
				doc := minimalDoc()
				setPath(doc, segs, "x", f)
				cfg, y, err := parseDoc(doc, nil)
				msg := ""
				if err != nil {
					msg = safeStr(err.Error())
				}
				afAll, afAny, same := parseDocFile(fdir, doc, y, nil, cfg, err)
				emit(M{"ev": "probe", "kind": "unknown", "path": strings.ReplaceAll(strings.Join(segs, "."), "<fmt>", f), "accepted": err == nil, "err": msg, "accepted_file_all": afAll, "accepted_file_any": afAny, "file_same": same})
			}
		}
	}
	// (a2) a document of more than a megabyte (a scripted relation list): what comes after the first megabyte is read,
	// checked and expanded like the rest
	{
		big := make([]any, 0, 90000)
		for i := 0; i < 90000; i++ {
			big = append(big, fmt.Sprintf("dep-%06d", i))
		}
		doc := minimalDoc()
		doc["depends"] = big
		doc["zzz_unknown_key"] = "x"
		cfg, y, err := parseDoc(doc, nil)
		msg := ""
		if err != nil {
			msg = firstN(safeStr(err.Error()), 300)
		}
		afAll, afAny, same := parseDocFile(fdir, doc, y, nil, cfg, err)
		emit(M{"ev": "probe", "kind": "unknown", "path": "zzz_unknown_key (after " + strconv.Itoa(len(y)) + " bytes)", "accepted": err == nil, "err": msg, "accepted_file_all": afAll, "accepted_file_any": afAny, "file_same": same})
		for _, env := range []map[string]string{{"VAR": "val", "OTHER": "o2"}, {}} {
			doc2 := minimalDoc()
			doc2["depends"] = big
			doc2["vendor"] = "pre-${VAR}-post"
			cfg2, _, err2 := parseDoc(doc2, env)
			ev := M{"ev": "expand", "path": "vendor", "kind": "string", "raw": "pre-${VAR}-post", "rawtag": "after-a-megabyte", "env": envM(env), "opt": "absent", "obs": []any{}, "err": ""}
			if err2 != nil {
				ev["err"] = firstN(safeStr(err2.Error()), 300)
			} else {
				ev["obs"] = []any{safeStr(cfg2.Vendor)}
			}
			emit(ev)
		}
	}
	// (b) expansion of every string-valued leaf
	raws := []struct{ raw, tag string }{{"John Doe <john@example.com>", "mailbox"}, {"john.doe@example.com", "bareaddr"}, {"\"$EMPTYV\" <$VAR@example.com>", "emptyquoted"}, {"arm", "goarch-arm"}, {"Zo\u00eb D\u00f6 <zoe@example.com>", "mailbox8"}, {"pre-$VAR-post", "dollar"}, {"pre-${VAR}-post", "brace"}, {"plain value", "plain"}, {"  ${VAR}  ", "padded"}, {"${EMPTYV}", "vanish"}, {"$VAR$OTHER", "two"}, {"  padded plain  ", "paddedplain"}, {"~/keys/plain.key", "tilde"}, {"~${VAR}/x", "tildevar"}}
	// (the third mapping: a value that itself looks like a reference - it is a value, substituted once; and GOARM next to a
	// literal "arm", which has nothing to do with it)
	envs := []map[string]string{{"VAR": "val", "OTHER": "o2", "HOME": "/home/builder", "USER": "builder"}, {}, {"VAR": "  spaced  "},
		{"VAR": "pa$$w0rd-$OTHER-${OTHER}", "OTHER": "o2", "GOARM": "7", "EMPTYV": ""}}
	for _, k := range paths {
		if k.Kind != "string" && k.Kind != "list" && k.Kind != "map" && k.Kind != "ptr" {
			continue
		}
		for _, f := range []string{"rpm"} {
			for _, r := range raws {
				for _, env := range envs {
					for _, opt := range []string{"absent", "true", "false"} {
						inContents := len(k.Segs) >= 2 && k.Segs[len(k.Segs)-2] == "[]" && (k.Segs[len(k.Segs)-3] == "contents")
						if !inContents && opt != "absent" {
							continue
						}
						doc := minimalDoc()
						var v any = r.raw
						switch k.Kind {
						case "list":
							v = []any{r.raw, "keep-me"}
						case "map":
							v = map[string]any{"Key": r.raw}
						}
						if k.Segs[0] == "version_schema" {
							continue
						}
						setPath(doc, k.Segs, v, f)
						if inContents && opt != "absent" {
							setPath(doc, append(append([]string{}, k.Segs[:len(k.Segs)-1]...), "expand"), opt == "true", f)
						}
						if r.tag == "brace" && len(env) >= 2 {
							// the same with an empty override block of another format in the document (as the reference configuration
							// of the documentation has): nothing about the expansion may change
							ov, _ := doc["overrides"].(map[string]any)
							if ov == nil {
								ov = map[string]any{}
								doc["overrides"] = ov
							}
							ov["apk"] = rawYAML("")
						}
						cfg, _, err := parseDoc(doc, env)
						ev := M{"ev": "expand", "path": strings.ReplaceAll(k.String(), "<fmt>", f), "kind": k.Kind, "raw": r.raw, "rawtag": r.tag, "env": envM(env),
							"opt": opt, "obs": []any{}, "err": ""}
						if err != nil {
							ev["err"] = safeStr(err.Error())
						} else {
							segs := make([]string, len(k.Segs))
							for i, s := range k.Segs {
								if s == "<fmt>" {
									s = f
								}
								segs[i] = s
							}
							lv, ok := fieldByYAML(reflect.ValueOf(&cfg), segs)
							if ok {
								switch k.Kind {
								case "string":
									ev["obs"] = []any{safeStr(lv.String())}
								case "ptr":
									if !lv.IsNil() {
										ev["obs"] = []any{safeStr(lv.Elem().String())}
									}
								case "list":
									ev["obs"] = leafM(lv, "list")
								case "map":
									o := make([]any, 0)
									for _, kk := range lv.MapKeys() {
										o = append(o, safeStr(lv.MapIndex(kk).String()))
									}
									sort.Slice(o, func(i, j int) bool { return o[i].(string) < o[j].(string) })
									ev["obs"] = o
								}
							}
						}
						emit(ev)
					}
				}
			}
		}
	}
	// (b2) an entry that opts in but has no source (dir, ghost): its destination is expanded all the same
	for _, ty := range []string{"dir", "ghost"} {
		for _, env := range envs {
			for _, opt := range []string{"true", "false"} {
				doc := minimalDoc()
				doc["contents"] = []any{map[string]any{"dst": "/opt/${VAR}/d", "type": ty, "expand": opt == "true"}}
				cfg, _, err := parseDoc(doc, env)
				ev := M{"ev": "expand", "path": "contents.[].dst", "kind": "string", "raw": "/opt/${VAR}/d", "rawtag": "nosrc-" + ty, "env": envM(env), "opt": opt, "obs": []any{}, "err": ""}
				if err != nil {
					ev["err"] = safeStr(err.Error())
				} else if len(cfg.Contents) == 1 {
					ev["obs"] = []any{safeStr(cfg.Contents[0].Destination)}
				}
				emit(ev)
			}
		}
	}
	// (b3) an opted-in entry that FOLLOWS entries which did not opt in (and precedes others): each entry decides for itself
	for _, env := range envs {
		doc := minimalDoc()
		doc["contents"] = []any{map[string]any{"src": "/s/${VAR}/first", "dst": "/d/${VAR}/first"},
			map[string]any{"src": "/s/${VAR}/second", "dst": "/d/${VAR}/second", "expand": false},
			map[string]any{"src": "/s/${VAR}/third", "dst": "/d/${VAR}/third", "expand": true},
			map[string]any{"src": "/s/${VAR}/fourth", "dst": "/d/${VAR}/fourth"},
			map[string]any{"dst": "/d/${VAR}/fifth", "type": "dir", "expand": true}}
		cfg, _, err := parseDoc(doc, env)
		for i, want := range []struct{ raw, opt string }{{"/d/${VAR}/first", "absent"}, {"/d/${VAR}/second", "false"}, {"/d/${VAR}/third", "true"}, {"/d/${VAR}/fourth", "absent"}, {"/d/${VAR}/fifth", "true"}} {
			ev := M{"ev": "expand", "path": "contents.[].dst", "kind": "string", "raw": want.raw, "rawtag": fmt.Sprintf("entry-%d-of-a-mixed-list", i+1), "env": envM(env), "opt": want.opt, "obs": []any{}, "err": ""}
			if err != nil {
				ev["err"] = safeStr(err.Error())
			} else if len(cfg.Contents) == 5 {
				ev["obs"] = []any{safeStr(cfg.Contents[i].Destination)}
			}
			emit(ev)
		}
	}
	// (c) passphrases: format-specific variable with the general one as fallback
	names := []string{"NFPM_PASSPHRASE", "NFPM_DEB_PASSPHRASE", "NFPM_RPM_PASSPHRASE", "NFPM_APK_PASSPHRASE"}
	for mask := 0; mask < 16; mask++ {
		env := map[string]string{}
		for i, nm := range names {
			if mask&(1<<i) != 0 {
				env[nm] = []string{"pw-" + strings.ToLower(nm), " pw " + nm + "\t", "pw-" + nm + "\n", "pa$$w0rd-$NFPM_PASSPHRASE-" + nm}[mask%4] // (a passphrase is used as it is, blanks, dollars and all)
			}
		}
		cfg, _, err := parseDoc(minimalDoc(), env)
		ev := M{"ev": "pass", "env": envM(env), "deb": "", "rpm": "", "apk": "", "err": ""}
		if err != nil {
			ev["err"] = safeStr(err.Error())
		} else {
			ev["deb"], ev["rpm"], ev["apk"] = cfg.Deb.Signature.KeyPassphrase, cfg.RPM.Signature.KeyPassphrase, cfg.APK.Signature.KeyPassphrase
		}
		emit(ev)
		// the same seen through the effective settings of each format, when the format's override block has a signature
		// block of its own (another key file): the passphrase is the environment's all the same
		doc := minimalDoc()
		for _, f := range []string{"deb", "rpm", "apk"} {
			setPath(doc, []string{f, "signature", "key_file"}, "/keys/base-"+f+".key", "")
			setPath(doc, []string{"overrides", f, f, "signature", "key_file"}, "/keys/override-"+f+".key", "")
		}
		cfg2, _, err2 := parseDoc(doc, env)
		ev2 := M{"ev": "pass", "env": envM(env), "deb": "", "rpm": "", "apk": "", "err": ""}
		if err2 != nil {
			ev2["err"] = safeStr(err2.Error())
		} else {
			for _, f := range []string{"deb", "rpm", "apk"} {
				info, gerr := cfg2.Get(f)
				if gerr != nil {
					ev2["err"] = safeStr(gerr.Error())
					break
				}
				ev2[f] = map[string]string{"deb": info.Deb.Signature.KeyPassphrase, "rpm": info.RPM.Signature.KeyPassphrase, "apk": info.APK.Signature.KeyPassphrase}[f]
			}
		}
		emit(ev2)
	}
	return n
}

func famConfig(tr *Trace, scratch string, seed int64, tier string, workers int, profile string) M {
	id := 0
	st := M{}
	switch profile {
	case "get":
		getSeed, getTier = seed, tier
		st["get_probes"] = famGet(tr, &id)
	case "ver":
		st["version_cases"] = famVer(tr, &id, seed, tier)
	case "parse":
		st["parse_probes"] = famParse(tr, &id)
	}
	st["cases"] = id
	st["profile"] = profile
	return st
}
