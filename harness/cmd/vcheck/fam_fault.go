package main

// Family "fault" (C06, part of C10): every sink-write index of the output
// stream fails in turn (error / short write, from k on / at k only), every file
// reference of a configuration is removed in turn, every invalid-setting class
// is tried; and the built nfpm binary is run as a process for the CLI half.

import (
	"bytes"
	"crypto/sha256"
	"encoding/hex"
	"encoding/json"
	"errors"
	"fmt"
	"io"
	"math/rand"
	"os"
	"os/exec"
	"path/filepath"
	"sort"
	"strings"
	"sync"
	"sync/atomic"
	"time"

	"github.com/goreleaser/nfpm/v2"
	"github.com/goreleaser/nfpm/v2/files"
)

var errInjected = errors.New("injected sink failure")

type faultW struct {
	k       int
	variant string // error | short | latent
	mode    string // from | once
	n       int
	buf     bytes.Buffer
	failed  bool
}

func (w *faultW) fails(i int) bool {
	if w.k < 0 {
		return false
	}
	if w.mode == "from" {
		return i >= w.k
	}
	return i == w.k
}

func (w *faultW) Write(p []byte) (int, error) {
	i := w.n
	w.n++
	if w.fails(i) {
		w.failed = true
		if w.variant == "short" && len(p) > 1 {
			h := len(p) / 2
			w.buf.Write(p[:h])
			return h, io.ErrShortWrite
		}
		if w.variant == "latent" { // every byte is accepted and an error is reported all the same
			w.buf.Write(p)
			return len(p), errInjected
		}
		return 0, errInjected
	}
	w.buf.Write(p)
	return len(p), nil
}

// setSigning configures key-file signing for one format; dir holds the key files.
func setSigning(c *Cfg, f, dir string) {
	switch f {
	case "deb":
		c.DebSigKey = dir + "/privkey.asc"
	case "rpm":
		c.RpmSigKey = dir + "/privkey.asc"
	case "apk":
		c.ApkSigKey, c.ApkSigKeyName = dir+"/rsa.priv", "origin"
	}
}

type faultCase struct {
	fmtName string
	signed  bool
	shape   string
	yaml    string
	root    string
}

func packageWith(yaml string, f string, w io.Writer) error {
	cfg, err := nfpm.ParseWithEnvMapping(strings.NewReader(yaml), func(k string) string {
		if k == "NFPM_PASSPHRASE" {
			return "hunter2"
		}
		return ""
	})
	if err != nil {
		return fmt.Errorf("parse: %w", err)
	}
	info, err := cfg.Get(f)
	if err != nil {
		return err
	}
	pk, err := nfpm.Get(f)
	if err != nil {
		return err
	}
	return pk.Package(nfpm.WithDefaults(info), w)
}

func famFault(tr *Trace, scratch string, seed int64, tier string, workers int, repo, nfpmBin, behaviours string) M {
	os.Unsetenv("SOURCE_DATE_EPOCH")
	id := 0
	nfaults, nsrc, ninv, ncli := 0, 0, 0, 0
	shapes := []string{"tiny", "odd", "big"}
	if tier == "quick" {
		shapes = []string{"tiny", "odd", "big"}
	}
	if os.Getenv("VERIF_FAULT_ONLY") == "cli" { // only the runs of the built binary
		ncli = famCli(tr, &id, scratch, nfpmBin, behaviours)
		return M{"cases": id, "cli_runs": ncli}
	}
	var cases []faultCase
	for _, f := range allFormats {
		for _, signed := range []bool{false, true} {
			if signed && (f == "ipk" || f == "archlinux") {
				continue
			}
			for _, sh := range shapes {
				root := filepath.Join(scratch, fmt.Sprintf("fault-%s-%v-%s", f, signed, sh))
				nodes := smallTree()
				c := baseCfg("faultpkg")
				c.Entries = []Entry{{Type: "file", Src: "src/bin", Dst: "/usr/bin/tool"}, {Type: "config", Src: "src/app.conf", Dst: "/etc/faultpkg/app.conf"}}
				switch sh {
				case "big":
					b := fileBytes(int64(len(f)), 300000)
					nodes = append(nodes, Node{P: "src/big.bin", Kind: "file", Mode: 0o644, Mt: 1500000000, Size: len(b), data: b, Cid: cidOf(b)})
					c.Entries = append(c.Entries, Entry{Type: "file", Src: "src/big.bin", Dst: "/opt/faultpkg/big.bin"})
				}
				if sh != "tiny" {
					nodes = append(nodes, addScripts(newRng(seed), c, []string{"postinstall"})...)
				}
				Materialise(root, nodes)
				if signed {
					setSigning(c, f, repo+"/internal/sign/testdata")
				}
				y := c.YAML(root)
				if sh == "odd" && f == "deb" {
					// vary the payload until the last ar member has odd length (exercises the padding write)
					for extra := 0; extra < 40; extra++ {
						var buf bytes.Buffer
						if packageWith(y, f, &buf) != nil {
							break
						}
						mem, err := parseAr(buf.Bytes())
						if err == nil && len(mem) > 0 && mem[len(mem)-1].Size%2 == 1 {
							break
						}
						os.WriteFile(filepath.Join(root, "src/app.conf"), []byte("key = value\n"+strings.Repeat("#", extra+1)), 0o640)
					}
				}
				cases = append(cases, faultCase{f, signed, sh, y, root})
			}
		}
	}
	if tier == "thorough" {
		// every compressor behind the sink (each buffers and flushes differently, so the error surfaces at other writes)
		for _, fc := range []struct{ f, comp string }{{"deb", "xz"}, {"deb", "zstd"}, {"deb", "none"}, {"rpm", "xz"}, {"rpm", "zstd"}, {"rpm", "lzma"}, {"rpm", "gzip:9"}} {
			root := filepath.Join(scratch, fmt.Sprintf("fault-%s-comp-%s", fc.f, strings.ReplaceAll(fc.comp, ":", "")))
			nodes := smallTree()
			c := baseCfg("faultpkg")
			c.Entries = []Entry{{Type: "file", Src: "src/bin", Dst: "/usr/bin/tool"}, {Type: "config", Src: "src/app.conf", Dst: "/etc/faultpkg/app.conf"}}
			b := fileBytes(int64(len(fc.comp)), 150000)
			nodes = append(nodes, Node{P: "src/big.bin", Kind: "file", Mode: 0o644, Mt: 1500000000, Size: len(b), data: b, Cid: cidOf(b)})
			c.Entries = append(c.Entries, Entry{Type: "file", Src: "src/big.bin", Dst: "/opt/faultpkg/big.bin"})
			if fc.f == "deb" {
				c.DebCompression = fc.comp
			} else {
				c.RpmCompression = fc.comp
			}
			Materialise(root, nodes)
			cases = append(cases, faultCase{fc.f, false, "comp-" + fc.comp, c.YAML(root), root})
		}
		// generated configurations (the payload / scripts / meta generators of the package family)
		rng := newRng(seed + 99)
		for i := 0; i < 18; i++ {
			pc := genPkgCase(rng, 7000+i, []string{"payload", "scripts", "meta"}[i%3], scratch, tier)
			Materialise(pc.Root, pc.Nodes)
			if pc.Cfg.Pmt == 0 {
				pc.Cfg.Pmt = 1600000000 // completeness is decided by comparing with the fault-free bytes: keep the clock out of them
			}
			y := pc.Cfg.YAML(pc.Root)
			for _, f := range allFormats {
				var probe bytes.Buffer
				if packageWith(y, f, &probe) != nil {
					continue // a generated configuration this format rejects: nothing to inject a fault into
				}
				cases = append(cases, faultCase{f, false, fmt.Sprintf("gen%d", i), y, pc.Root})
			}
		}
	}
	ids := make([]int, len(cases))
	for i := range cases {
		id++
		ids[i] = id
	}
	var nf int64
	parallel(len(cases), workers, func(ci int) {
		fc := cases[ci]
		id := ids[ci]
		nfaults := 0
		defer func() { atomic.AddInt64(&nf, int64(nfaults)) }()
		base := &faultW{k: -1}
		err := packageWith(fc.yaml, fc.fmtName, base)
		if err != nil {
			tr.Emit(id, []M{{"ev": "case", "id": id, "fam": "fault"}, {"ev": "baseline", "fmt": fc.fmtName, "signed": fc.signed, "shape": fc.shape, "n": 0, "bytes": 0, "err": safeStr(err.Error())}, {"ev": "endcase"}})
			return
		}
		N := base.n
		sum := sha256.Sum256(base.buf.Bytes())
		baseHash := hex.EncodeToString(sum[:])
		evs := []M{{"ev": "case", "id": id, "fam": "fault"}, {"ev": "baseline", "fmt": fc.fmtName, "signed": fc.signed, "shape": fc.shape, "n": N, "bytes": base.buf.Len(), "err": ""}}
		ks := make([]int, 0)
		for k := 0; k <= N; k++ {
			ks = append(ks, k)
		}
		if N > 40 && tier == "quick" { // long streams: all of the first and last writes, a sample in between
			ks = ks[:0]
			for k := 0; k <= N; k++ {
				if k < 12 || k > N-14 || k%(N/12+1) == 0 {
					ks = append(ks, k)
				}
			}
		}
		for _, k := range ks {
			for _, variant := range []string{"error", "short", "latent"} {
				for _, mode := range []string{"from", "once"} {
					w := &faultW{k: k, variant: variant, mode: mode}
					err := packageWith(fc.yaml, fc.fmtName, w)
					complete := false
					if err == nil {
						if fc.signed {
							_, derr := emitFormat(fc.fmtName, w.buf.Bytes(), scratch, 0)
							complete = derr == nil && w.buf.Len() > 0 && !w.failed
						} else {
							s2 := sha256.Sum256(w.buf.Bytes())
							complete = hex.EncodeToString(s2[:]) == baseHash
						}
					}
					ret, msg := "ok", ""
					if err != nil {
						ret, msg = "error", safeStr(err.Error())
						if len(msg) > 160 {
							msg = msg[:160]
						}
					}
					evs = append(evs, M{"ev": "fault", "fmt": fc.fmtName, "signed": fc.signed, "shape": fc.shape, "k": k, "variant": variant, "mode": mode,
						"n": N, "ret": ret, "complete": complete, "sinkfailed": w.failed, "errmsg": msg})
					nfaults++
				}
			}
		}
		evs = append(evs, M{"ev": "endcase"})
		tr.Emit(id, evs)
	})
	nfaults = int(nf)

	// ---- source faults: every file reference removed, one at a time
	{
		root := filepath.Join(scratch, "srcfault")
		mkcfg := func() *Cfg {
			c := baseCfg("srcpkg")
			c.Entries = []Entry{{Type: "file", Src: "src/bin", Dst: "/usr/bin/tool"}, {Type: "config", Src: "src/app.conf", Dst: "/etc/srcpkg/app.conf", Tag: "deb"},
				{Type: "file", Src: "src/extra.conf", Dst: "/etc/srcpkg/extra.conf", Tag: "rpm"}, {Type: "doc", Src: "src/empty", Dst: "/usr/share/doc/srcpkg/empty.txt"},
				{Type: "tree", Src: "src/sub", Dst: "/usr/share/srcpkg/tree", Tag: "apk"},
				{Type: "config|missingok", Src: "src/mok.conf", Dst: "/etc/srcpkg/mok.conf"}, {Type: "config|noreplace", Src: "src/nrp.conf", Dst: "/etc/srcpkg/nrp.conf"},
				{Type: "config|missingok", Src: "src/mok2.conf", Dst: "/etc/srcpkg/mok2.conf", Tag: "ipk"},
				{Type: "licence", Src: "src/lic.txt", Dst: "/usr/share/licenses/srcpkg/LICENSE"}, {Type: "readme", Src: "src/readme.txt", Dst: "/usr/share/doc/srcpkg/README"}}
			c.Changelog = []ChEntry{{"1.2.3", 1500000000, "Jane Doe <jane@example.org>", []string{"a note"}}}
			return c
		}
		c := mkcfg()
		nodes := append(smallTree(), addScripts(newRng(seed), c, scriptSlots)...)
		for _, extra := range []string{"src/mok.conf", "src/nrp.conf", "src/mok2.conf", "src/lic.txt", "src/readme.txt"} {
			b := []byte("contents of " + extra + "\n")
			nodes = append(nodes, Node{P: extra, Kind: "file", Mode: 0o644, Mt: 1500000000, Size: len(b), data: b, Cid: cidOf(b)})
		}
		type ref struct{ kind, name, path string }
		var refs []ref
		for i, e := range c.Entries {
			refs = append(refs, ref{"content", fmt.Sprintf("%d:%s:%s", i, e.Type, e.Tag), e.Src})
		}
		for _, s := range scriptSlots {
			refs = append(refs, ref{"script", s, c.Scripts[s]})
		}
		refs = append(refs, ref{"changelog", "changelog", "changelog.yaml"})
		keyName := map[string]string{"deb": "privkey.asc", "rpm": "privkey.asc", "apk": "rsa.priv"}
		for _, signed := range []bool{false, true} {
			for _, f := range allFormats {
				if signed && keyName[f] == "" {
					continue
				}
				rs := refs
				cc := mkcfg()
				cc.Scripts, cc.ScriptCid, cc.ScriptMt = c.Scripts, c.ScriptCid, c.ScriptMt
				if signed {
					setSigning(cc, f, root) // a private copy of the key so that it can be removed
					rs = []ref{{"keyfile", f, keyName[f]}}
				}
				y0 := cc.YAML(root)
				for _, r := range rs {
					os.RemoveAll(root)
					Materialise(root, nodes)
					os.WriteFile(filepath.Join(root, "changelog.yaml"), []byte(c.ChangelogYAML()), 0o644)
					if signed {
						b, _ := os.ReadFile(repo + "/internal/sign/testdata/" + r.path)
						os.WriteFile(filepath.Join(root, r.path), b, 0o600)
					}
					var ok bytes.Buffer
					okErr := packageWith(y0, f, &ok)
					must(os.RemoveAll(filepath.Join(root, r.path)))
					var buf bytes.Buffer
					err := packageWith(y0, f, &buf)
					id++
					nsrc++
					ret, msg, okmsg := "ok", "", ""
					if err != nil {
						ret, msg = "error", safeStr(strings.ReplaceAll(err.Error(), root, "$ROOT"))
					}
					if okErr != nil {
						okmsg = safeStr(okErr.Error())
					}
					tag := ""
					typ := ""
					if r.kind == "content" {
						p := strings.SplitN(r.name, ":", 3)
						typ, tag = p[1], p[2]
					}
					var sf *nfpm.ErrSigningFailure
					tr.Emit(id, []M{{"ev": "case", "id": id, "fam": "srcfault"},
						{"ev": "srcfault", "fmt": f, "signed": signed, "kind": r.kind, "name": r.name, "type": typ, "tag": tag, "ret": ret, "errmsg": msg, "baseline_err": okmsg,
							"is_signing_failure": errors.As(err, &sf)},
						{"ev": "endcase"}})
				}
			}
		}
	}

	// ---- invalid settings, one class at a time
	{
		root := filepath.Join(scratch, "invalid")
		Materialise(root, smallTree())
		type inv struct {
			class string
			mut   func(c *Cfg, y string) string
		}
		plain := func(c *Cfg) { c.Entries = []Entry{{Type: "file", Src: "src/bin", Dst: "/usr/bin/tool"}} }
		classes := []inv{
			{"none", func(c *Cfg, y string) string { return y }},
			{"deb_compression", func(c *Cfg, y string) string { return y + "deb:\n  compression: \"lz4\"\n" }},
			{"rpm_compression", func(c *Cfg, y string) string {
				return strings.Replace(y, "rpm:\n", "rpm:\n  compression: \"lz4\"\n", 1)
			}},
			{"content_type", func(c *Cfg, y string) string {
				return strings.Replace(y, "contents:\n", "contents:\n  - src: "+yq(root+"/src/bin")+"\n    dst: \"/x/y\"\n    type: \"fille\"\n", 1)
			}},
			// ... also one that starts like a valid configuration type
			{"content_type_config_replace", func(c *Cfg, y string) string {
				return strings.Replace(y, "contents:\n", "contents:\n  - src: "+yq(root+"/src/app.conf")+"\n    dst: \"/etc/x/y\"\n    type: \"config|replace\"\n", 1)
			}},
			{"content_type_configuration", func(c *Cfg, y string) string {
				return strings.Replace(y, "contents:\n", "contents:\n  - src: "+yq(root+"/src/app.conf")+"\n    dst: \"/etc/x/y\"\n    type: \"configuration\"\n", 1)
			}},
			{"content_type_config_both_flags", func(c *Cfg, y string) string {
				return strings.Replace(y, "contents:\n", "contents:\n  - src: "+yq(root+"/src/app.conf")+"\n    dst: \"/etc/x/y\"\n    type: \"config|noreplace|missingok\"\n", 1)
			}},
			{"deb_signature_type", func(c *Cfg, y string) string {
				setSigning(c, "deb", repo+"/internal/sign/testdata")
				c.DebSigType = "bogus"
				return c.YAML(root)
			}},
			{"rpm_epoch", func(c *Cfg, y string) string { return y + "epoch: \"abc\"\n" }},
			{"rpm_epoch_range", func(c *Cfg, y string) string { return y + "epoch: \"4294967296\"\n" }},
			{"rpm_epoch_negative", func(c *Cfg, y string) string { return y + "epoch: \"-1\"\n" }},
			{"platform", func(c *Cfg, y string) string {
				return strings.Replace(y, "platform: \"linux\"", "platform: \"darwin\"", 1)
			}},
			{"arch_name", func(c *Cfg, y string) string { return strings.Replace(y, "name: \"invpkg\"", "name: \"inv pkg!\"", 1) }},
			{"arch_name_hyphen", func(c *Cfg, y string) string { return strings.Replace(y, "name: \"invpkg\"", "name: \"-invpkg\"", 1) }},
			{"arch_name_dot", func(c *Cfg, y string) string { return strings.Replace(y, "name: \"invpkg\"", "name: \".inv.pkg\"", 1) }},
			{"arch_name_dashes", func(c *Cfg, y string) string { return strings.Replace(y, "name: \"invpkg\"", "name: \"--\"", 1) }},
			// a relation with an operator rpm does not know, in each relation list (the other formats pass relations through)
			{"rpm_relation_depends", func(c *Cfg, y string) string {
				c.Depends = []string{"good >= 1", "libfoo == 1.2.3"}
				return c.YAML(root)
			}},
			{"rpm_relation_provides", func(c *Cfg, y string) string { c.Provides = []string{"virt >> 2"}; return c.YAML(root) }},
			{"rpm_relation_recommends", func(c *Cfg, y string) string { c.Recommends = []string{"rec << 1", "fine"}; return c.YAML(root) }},
			{"rpm_relation_replaces", func(c *Cfg, y string) string { c.Replaces = []string{"old == 1"}; return c.YAML(root) }},
			{"rpm_relation_suggests", func(c *Cfg, y string) string { c.Suggests = []string{"sug =< 2"}; return c.YAML(root) }},
			{"rpm_relation_conflicts", func(c *Cfg, y string) string { c.Conflicts = []string{"bad => 1"}; return c.YAML(root) }},
			{"missing_name", func(c *Cfg, y string) string { return strings.Replace(y, "name: \"invpkg\"\n", "", 1) }},
			// an owner / group name that no GNU tar header can hold (deb and ipk write GNU headers): on a declared directory, on
			// a file - the entry cannot be shipped as declared, so nothing is (the other formats store the name)
			{"gnu_name_limit_dir", func(c *Cfg, y string) string {
				c.Entries = append(c.Entries, Entry{Type: "dir", Dst: "/var/lib/invpkg", Fi: Fi{Owner: strings.Repeat("o", 40), Group: "g", Mode: 0o750}, HasFi: true})
				return c.YAML(root)
			}},
			{"gnu_name_limit_file", func(c *Cfg, y string) string {
				c.Entries = append(c.Entries, Entry{Type: "file", Src: "src/app.conf", Dst: "/etc/invpkg/app.conf", Fi: Fi{Owner: "own", Group: strings.Repeat("g", 33)}, HasFi: true})
				return c.YAML(root)
			}},
			{"gnu_name_limit_tree_dirs", func(c *Cfg, y string) string {
				c.Entries = append(c.Entries, Entry{Type: "dir", Dst: "/var/lib/invpkg/a", Fi: Fi{Owner: "app", Group: strings.Repeat("g", 64)}, HasFi: true},
					Entry{Type: "dir", Dst: "/var/lib/invpkg/b", Fi: Fi{Owner: strings.Repeat("o", 33), Group: "g"}, HasFi: true})
				return c.YAML(root)
			}},
			{"wrong_passphrase", func(c *Cfg, y string) string { return y }},
		}
		for _, cl := range classes {
			for _, f := range allFormats {
				c := baseCfg("invpkg")
				plain(c)
				y := cl.mut(c, c.YAML(root))
				var buf bytes.Buffer
				var err error
				if cl.class == "wrong_passphrase" {
					if f == "ipk" || f == "archlinux" {
						continue
					}
					setSigning(c, f, repo+"/internal/sign/testdata")
					y2 := c.YAML(root)
					cfg, perr := nfpm.ParseWithEnvMapping(strings.NewReader(y2), func(k string) string {
						if k == "NFPM_PASSPHRASE" {
							return "not-the-passphrase"
						}
						return ""
					})
					err = perr
					if perr == nil {
						info, _ := cfg.Get(f)
						pk, _ := nfpm.Get(f)
						err = pk.Package(nfpm.WithDefaults(info), &buf)
					}
				} else {
					err = packageWith(y, f, &buf)
				}
				id++
				ninv++
				ret, msg := "ok", ""
				if err != nil {
					ret, msg = "error", safeStr(strings.ReplaceAll(err.Error(), root, "$ROOT"))
				}
				var sf *nfpm.ErrSigningFailure
				tr.Emit(id, []M{{"ev": "case", "id": id, "fam": "invalid"},
					{"ev": "invalid", "class": cl.class, "fmt": f, "ret": ret, "errmsg": msg, "is_signing_failure": errors.As(err, &sf)}, {"ev": "endcase"}})
			}
		}
	}

	// ---- invalid settings that only a hand-built Info can have (no defaults applied): no architecture for THIS package
	{
		root := filepath.Join(scratch, "handbuilt")
		Materialise(root, smallTree())
		for _, class := range []string{"handbuilt_none", "handbuilt_no_arch", "handbuilt_arch_of_other", "handbuilt_own_arch", "handbuilt_no_version", "handbuilt_no_name"} {
			for _, f := range allFormats {
				info := &nfpm.Info{Name: "hbpkg", Arch: "amd64", Platform: "linux", Version: "1.0.0", Maintainer: "Jane Doe <jane@example.org>", Description: "hand built"}
				info.Contents = files.Contents{{Source: root + "/src/bin", Destination: "/usr/bin/hbtool"}}
				info.MTime = time.Unix(1600000000, 0)
				switch class {
				case "handbuilt_no_arch":
					info.Arch = ""
				case "handbuilt_arch_of_other":
					info.Arch = ""
					if f != "deb" {
						info.Deb.Arch = "amd64"
					}
					if f != "rpm" {
						info.RPM.Arch = "x86_64"
					}
					if f != "apk" {
						info.APK.Arch = "x86_64"
					}
					if f != "ipk" {
						info.IPK.Arch = "x86_64"
					}
					if f != "archlinux" {
						info.ArchLinux.Arch = "x86_64"
					}
				case "handbuilt_own_arch":
					info.Arch = ""
					switch f {
					case "deb":
						info.Deb.Arch = "amd64"
					case "rpm":
						info.RPM.Arch = "x86_64"
					case "apk":
						info.APK.Arch = "x86_64"
					case "ipk":
						info.IPK.Arch = "x86_64"
					case "archlinux":
						info.ArchLinux.Arch = "x86_64"
					}
				case "handbuilt_no_version":
					info.Version = ""
				case "handbuilt_no_name":
					info.Name = ""
				}
				var buf bytes.Buffer
				pk, _ := nfpm.Get(f)
				var err error
				func() {
					defer func() {
						if r := recover(); r != nil {
							err = fmt.Errorf("panic: %v", r)
						}
					}()
					err = pk.Package(info, &buf)
				}()
				id++
				ninv++
				ret, msg := "ok", ""
				if err != nil {
					ret, msg = "error", safeStr(strings.ReplaceAll(err.Error(), root, "$ROOT"))
				}
				var sf *nfpm.ErrSigningFailure
				tr.Emit(id, []M{{"ev": "case", "id": id, "fam": "invalid"},
					{"ev": "invalid", "class": class, "fmt": f, "ret": ret, "errmsg": msg, "is_signing_failure": errors.As(err, &sf)}, {"ev": "endcase"}})
			}
		}
	}

	// ---- the command-line tool
	if nfpmBin != "" {
		ncli = famCli(tr, &id, scratch, nfpmBin, behaviours)
	}
	return M{"cases": id, "sink_faults": nfaults, "source_faults": nsrc, "invalid_settings": ninv, "cli_runs": ncli}
}

func newRng(seed int64) *rand.Rand { return rand.New(rand.NewSource(seed)) }

// ---------------------------------------------------------------- CLI

func listFiles(dir string) []any {
	out := make([]any, 0)
	filepath.Walk(dir, func(p string, info os.FileInfo, err error) error {
		if err != nil || p == dir {
			return nil
		}
		rel, _ := filepath.Rel(dir, p)
		if info.IsDir() {
			rel += "/"
		}
		out = append(out, rel)
		return nil
	})
	sort.Slice(out, func(i, j int) bool { return out[i].(string) < out[j].(string) })
	return out
}

// cliBehaviour is one terminal state exported by TLC from spec/Cli.tla (MC_Cli_export.cfg).
type cliBehaviour struct {
	Argv struct {
		Fmt   string `json:"fmt"`
		Kind  string `json:"kind"`
		Withp bool   `json:"withp"`
		Fault string `json:"fault"`
	} `json:"argv"`
	Exit    int    `json:"exit"`
	Where   string `json:"where"`
	Fs      string `json:"fs"`
	Created bool   `json:"created"`
	Cause   bool   `json:"cause"`
}

func famCli(tr *Trace, id *int, scratch, bin, behaviours string) int {
	n := 0
	root := filepath.Join(scratch, "cli-src")
	c := baseCfg("clipkg")
	nodes := append(smallTree(), addScripts(newRng(7), c, []string{"postinstall"})...)
	c.Entries = []Entry{{Type: "file", Src: "src/bin", Dst: "/usr/bin/tool"}, {Type: "config", Src: "src/app.conf", Dst: "/etc/clipkg/app.conf"}}
	// every format has an override block that changes its bytes: the tool must build the effective settings of the format it
	// packages, however it came to know the format (-p or the target's extension)
	c.Depends = []string{"base-dep"}
	c.Vendor = "Vendor Inc\n" // (given to the tool through a variable whose value ends in a newline: used as it is)
	c.Ov = map[string]*OvCfg{}
	for _, f := range allFormats {
		// ... and the architecture in the format's own spelling, set in the override block only: the package AND its
		// conventional name follow the effective settings of the packaged format
		c.Ov[f] = &OvCfg{Depends: []string{"dep-for-" + f}, Umask: 0o27,
			NestedArch: map[string]string{"deb": "armhf", "rpm": "armv7hl", "apk": "armv7", "archlinux": "armv7h", "ipk": "arm_cortex-a7"}[f]}
		nodes = append(nodes, ovScripts(c, f, []string{"preremove"})...) // ... and a script that only this format's block sets
	}
	exts := map[string]string{"deb": ".deb", "rpm": ".rpm", "apk": ".apk", "archlinux": ".pkg.tar.zst", "ipk": ".ipk"}
	run := func(f, targetKind, fault string, withP bool, tlc *cliBehaviour) {
		work := filepath.Join(scratch, fmt.Sprintf("cli-%d", *id+1))
		outDir := filepath.Join(work, "out")
		if targetKind == "dir_dotted" { // an existing directory whose name looks like a file name with an extension
			outDir = filepath.Join(work, "nightly-2024.06.01")
		}
		cwd := filepath.Join(work, "cwd")
		if targetKind == "dir_tilde" { // an existing directory, named relative to the working directory, whose name starts with a tilde
			outDir = filepath.Join(cwd, "~pkgs")
		}
		must(os.MkdirAll(filepath.Join(work, "home"), 0o755))
		must(os.MkdirAll(outDir, 0o755))
		must(os.MkdirAll(cwd, 0o755))
		os.RemoveAll(root)
		Materialise(root, nodes)
		y := c.YAML(root)
		other := map[string]string{"deb": "rpm", "rpm": "apk", "apk": "ipk", "ipk": "deb", "archlinux": "deb"}
		built := f
		if targetKind == "file_other_ext" && !withP {
			built = other[f]
		}
		if fault == "missing_key" { // signing is configured, the key file is not there (formats that do not sign are unaffected)
			cs := *c
			setSigning(&cs, built, filepath.Join(work, "no-such-dir"))
			y = cs.YAML(root)
		}
		cfgPath := filepath.Join(work, "nfpm.yaml")
		// the file the tool reads spells some values as references to the environment it is started in (a documented
		// expandable field, a relation, a content source that opts in); the reference build below uses the literal values
		yCli := strings.Replace(y, "version: \"1.2.3\"", "version: \"${VERIF_CLI_VERSION}\"", 1)
		yCli = strings.Replace(yCli, "- \"base-dep\"", "- \"${VERIF_CLI_DEP}\"", 1)
		yCli = strings.Replace(yCli, "vendor: "+yq(c.Vendor), "vendor: \"${VERIF_CLI_VENDOR}\"", 1)
		yCli = strings.Replace(yCli, "  - src: "+yq(root+"/src/bin")+"\n", "  - src: \"${VERIF_CLI_ROOT}/src/bin\"\n    expand: true\n", 1)
		if yCli == y || !strings.Contains(yCli, "VERIF_CLI_ROOT") || !strings.Contains(yCli, "VERIF_CLI_DEP") || !strings.Contains(yCli, "VERIF_CLI_VENDOR") {
			panic("famCli: the configuration no longer has the values the environment references replace")
		}
		must(os.WriteFile(cfgPath, []byte(yCli), 0o644))
		// the reference bytes: a library build of the same configuration, for the packager the tool is to use - the one given
		// with -p whatever the target is called, otherwise the one the target's extension names (Cli!Built)
		var ref bytes.Buffer
		refErr := packageWith(y, built, &ref)
		refName := ""
		if pk, err := nfpm.Get(f); err == nil {
			if cfg, err := parseCfg(y); err == nil {
				if i, err := cfg.Get(f); err == nil {
					refName = pk.ConventionalFileName(nfpm.WithDefaults(i))
				}
			}
		}
		target := ""
		switch targetKind {
		case "file":
			target = filepath.Join(outDir, "custom-name"+exts[f])
		case "file_foreign_ext":
			target = filepath.Join(outDir, "custom-name.bin")
		case "file_other_ext":
			target = filepath.Join(outDir, "custom-name"+exts[other[f]])
		case "file_no_ext":
			target = filepath.Join(outDir, "artifact")
		case "file_tilde": // a file name that starts with a tilde, relative to the working directory (not a home directory reference)
			target = "~custom-name" + exts[f]
		case "dir_tilde":
			target = "~pkgs"
		case "dir", "dir_dotted":
			target = outDir
		case "dir_slash":
			target = outDir + "/"
		case "symlink_dir":
			target = filepath.Join(work, "linkdir")
			must(os.Symlink(outDir, target))
		case "empty":
			target = ""
		case "devfull":
			target = filepath.Join(outDir, "custom-name"+exts[f])
			must(os.Symlink("/dev/full", target))
		case "existing_larger":
			target = filepath.Join(outDir, "custom-name"+exts[f])
			must(os.WriteFile(target, bytes.Repeat([]byte("OLD-CONTENT-"), 400000), 0o644))
		}
		switch fault {
		case "missing_script":
			os.Remove(filepath.Join(root, c.Scripts["postinstall"]))
		case "missing_source":
			os.Remove(filepath.Join(root, "src/app.conf"))
		case "bad_config":
			must(os.WriteFile(cfgPath, []byte(yCli+"unknown_key: 1\n"), 0o644))
		}
		args := []string{"package", "-f", cfgPath}
		if target != "" {
			args = append(args, "-t", target)
		}
		if withP {
			args = append(args, "-p", f)
		}
		t0 := time.Now()
		cmd := exec.Command(bin, args...)
		cmd.Dir = cwd
		cmd.Env = append(os.Environ(), "HOME="+filepath.Join(work, "home"), "TZ=UTC", "VERIF_CLI_VERSION=1.2.3", "VERIF_CLI_DEP=base-dep", "VERIF_CLI_ROOT="+root, "VERIF_CLI_VENDOR="+c.Vendor)
		var so, se bytes.Buffer
		cmd.Stdout, cmd.Stderr = &so, &se
		err := cmd.Run()
		exit := 0
		if err != nil {
			exit = 1
			if ee, ok := err.(*exec.ExitError); ok {
				exit = ee.ExitCode()
			}
		}
		if os.Getenv("VERIF_DEBUG") != "" {
			fmt.Fprintln(os.Stderr, "cli", f, targetKind, fault, time.Since(t0))
		}
		outS := so.String() + se.String()
		created := ""
		for _, ln := range strings.Split(outS, "\n") {
			if strings.HasPrefix(ln, "created package: ") {
				created = strings.TrimPrefix(ln, "created package: ")
			}
		}
		// where is the package expected
		expPath := ""
		switch targetKind {
		case "file", "file_foreign_ext", "file_other_ext", "file_no_ext", "devfull", "existing_larger":
			expPath = target
		case "file_tilde":
			expPath = filepath.Join(cwd, target)
		case "dir", "dir_slash", "dir_dotted", "dir_tilde":
			expPath = filepath.Join(outDir, refName)
		case "symlink_dir":
			expPath = filepath.Join(outDir, refName)
		case "empty":
			expPath = filepath.Join(cwd, refName)
		}
		atExp, same := false, false
		if st, err := os.Lstat(expPath); err == nil && !st.IsDir() {
			atExp = true
			if targetKind != "devfull" && refErr == nil { // (the devfull target is a symlink to a device: never read it)
				if b, err := os.ReadFile(expPath); err == nil {
					same = bytes.Equal(b, ref.Bytes())
				}
			}
		}
		// the abstract state of Cli.tla, projected from what is on disk
		cwdList := func() []any { // (for dir_tilde the output directory lies inside the working directory: it is listed on its own)
			var out []any
			for _, nm := range listFiles(cwd) {
				if targetKind == "dir_tilde" && strings.HasPrefix(nm.(string), "~pkgs/") {
					continue
				}
				out = append(out, nm)
			}
			if out == nil {
				out = []any{}
			}
			return out
		}
		outF, cwdF := listFiles(outDir), cwdList()
		obsWhere, obsFs := "", "absent"
		locate := func(dir string, names []any, whereConv string) {
			for _, nm := range names {
				name := nm.(string)
				if strings.HasSuffix(name, "/") {
					continue
				}
				p := filepath.Join(dir, name)
				if name == refName {
					obsWhere = whereConv
				} else {
					obsWhere = "target"
				}
				if st, err := os.Lstat(p); err == nil && st.Mode()&os.ModeSymlink != 0 {
					obsFs = "old" // the fixture that was at the -t name before the run (symlink to /dev/full) is still there
					continue
				}
				if b, err := os.ReadFile(p); err == nil {
					switch {
					case refErr == nil && bytes.Equal(b, ref.Bytes()):
						obsFs = "complete"
					case bytes.HasPrefix(b, []byte("OLD-CONTENT-")) && len(b) == 12*400000:
						obsFs = "old"
					default:
						obsFs = "partial"
					}
				}
			}
		}
		locate(outDir, outF, "dir/conventional")
		locate(cwd, cwdF, "cwd/conventional")
		*id++
		n++
		rel := func(p string) string { return strings.ReplaceAll(p, work, "$WORK") }
		tl := M{"present": false, "exit": 0, "where": "", "fs": "", "created": false, "cause": false}
		if tlc != nil {
			tl = M{"present": true, "exit": tlc.Exit, "where": tlc.Where, "fs": tlc.Fs, "created": tlc.Created, "cause": tlc.Cause}
		}
		exitClass := 0
		if exit != 0 {
			exitClass = 1
		}
		tr.Emit(*id, []M{{"ev": "case", "id": *id, "fam": "cli"},
			{"ev": "cli", "fmt": f, "built": built, "target_kind": targetKind, "fault": fault, "with_p": withP, "exit": exit,
				"created_line": rel(created), "expected_path": rel(expPath), "file_at_expected": atExp, "bytes_equal_library_build": same,
				"out_files": listFiles(outDir), "cwd_files": cwdList(), "output": safeStr(rel(strings.ReplaceAll(outS, root, "$ROOT"))),
				"mentions_cause": strings.Contains(outS, "postinstall") && fault == "missing_script" || strings.Contains(outS, "app.conf") && fault == "missing_source" ||
					strings.Contains(outS, "unknown_key") && fault == "bad_config" || fault == "missing_key" && (strings.Contains(outS, "no-such-dir") || strings.Contains(outS, "sign")) || fault == "devfull" && (strings.Contains(outS, "no space") || strings.Contains(outS, "write")),
				"mentions_packager": strings.Contains(outS, "packager"),
				"conventional_name": refName, "tlc": tl, "obs_exit": exitClass, "obs_where": obsWhere, "obs_fs": obsFs},
			{"ev": "endcase"}})
		os.RemoveAll(work)
	}
	// several runs of the tool at the same time into ONE directory, target names that differ only in their extension (what a
	// release script does): each run delivers its own package, nothing else is left behind
	conc := func(round int) {
		work := filepath.Join(scratch, fmt.Sprintf("cli-conc-%d", round))
		outDir := filepath.Join(work, "dist")
		must(os.MkdirAll(outDir, 0o755))
		os.RemoveAll(root)
		Materialise(root, nodes)
		y := c.YAML(root)
		cfgPath := filepath.Join(work, "nfpm.yaml")
		must(os.WriteFile(cfgPath, []byte(y), 0o644))
		type res struct {
			exit int
			out  string
		}
		rs := make([]res, len(allFormats))
		var wg sync.WaitGroup
		for i, f := range allFormats {
			wg.Add(1)
			go func(i int, f string) {
				defer wg.Done()
				cmd := exec.Command(bin, "package", "-f", cfgPath, "-p", f, "-t", filepath.Join(outDir, "demo"+exts[f]))
				cmd.Dir = work
				cmd.Env = append(os.Environ(), "TZ=UTC")
				o, err := cmd.CombinedOutput()
				if err != nil {
					rs[i].exit = 1
				}
				rs[i].out = string(o)
			}(i, f)
		}
		wg.Wait()
		left := listFiles(outDir)
		for i, f := range allFormats {
			var ref bytes.Buffer
			refErr := packageWith(y, f, &ref)
			b, rerr := os.ReadFile(filepath.Join(outDir, "demo"+exts[f]))
			*id++
			n++
			tr.Emit(*id, []M{{"ev": "case", "id": *id, "fam": "cli_conc"},
				{"ev": "cli_conc", "fmt": f, "round": round, "exit": rs[i].exit, "bytes_equal_library_build": refErr == nil && rerr == nil && bytes.Equal(b, ref.Bytes()),
					"files_left": len(left), "expected_files": len(allFormats), "output": safeStr(firstN(strings.ReplaceAll(rs[i].out, work, "$WORK"), 300))},
				{"ev": "endcase"}})
		}
		os.RemoveAll(work)
	}
	for round := 0; round < 3; round++ {
		conc(round)
	}
	if behaviours != "" {
		// spec -> code: every terminal behaviour TLC exported is replayed on the real binary
		b, err := os.ReadFile(behaviours)
		must(err)
		for _, ln := range strings.Split(strings.TrimSpace(string(b)), "\n") {
			var bh cliBehaviour
			must(json.Unmarshal([]byte(ln), &bh))
			run(bh.Argv.Fmt, bh.Argv.Kind, bh.Argv.Fault, bh.Argv.Withp, &bh)
		}
		return n
	}
	for _, f := range allFormats {
		for _, tk := range []string{"file", "dir", "dir_slash", "dir_dotted", "file_tilde", "dir_tilde", "empty", "symlink_dir", "existing_larger"} {
			run(f, tk, "none", true, nil)
		}
		run(f, "file", "none", false, nil) // packager inferred from the extension
		run(f, "file_foreign_ext", "none", true, nil)
		run(f, "file_other_ext", "none", true, nil)    // -p wins over the extension
		run(f, "file_other_ext", "none", false, nil)   // the extension names the packager
		run(f, "file_foreign_ext", "none", false, nil) // no packager, foreign extension: must fail, nothing written
		run(f, "dir", "none", false, nil)              // no packager, directory: must fail
		for _, fault := range []string{"missing_script", "missing_source", "bad_config"} {
			for _, tk := range []string{"file", "dir", "empty"} {
				run(f, tk, fault, true, nil)
			}
		}
		run(f, "devfull", "devfull", true, nil)
		for _, tk := range []string{"file", "dir", "empty", "existing_larger", "dir_dotted"} { // (also a rebuild over the same path: nothing unsigned stays there)
			run(f, tk, "missing_key", true, nil)
		}
	}
	return n
}
