package main

// Independent decoders: the projection from package bytes to trace events.
// None of this shares code with nfpm's writers (blakesmith/ar, rpmpack,
// nfpm's own tar/apk/mtree emitters).  The projection is dumb: it reports
// what is in the package; whether a value is right is decided by the spec.

import (
	"archive/tar"
	"bytes"
	"compress/gzip"
	"crypto/md5"
	"crypto/sha1"
	"crypto/sha256"
	"encoding/binary"
	"encoding/hex"
	"errors"
	"fmt"
	"io"
	"sort"
	"strconv"
	"strings"

	"github.com/klauspost/compress/zstd"
	"github.com/ulikunitz/xz"
	"github.com/ulikunitz/xz/lzma"
)

// ---------------------------------------------------------------- ar

type arMember struct {
	Name  string
	Size  int
	Mtime int
	Mode  int
	Off   int // offset of the member header
	Data  []byte
}

func parseAr(b []byte) ([]arMember, error) {
	if len(b) < 8 || string(b[:8]) != "!<arch>\n" {
		return nil, errors.New("ar: bad global header")
	}
	var out []arMember
	off := 8
	for off < len(b) {
		if off+60 > len(b) {
			return out, fmt.Errorf("ar: truncated member header at %d", off)
		}
		h := b[off : off+60]
		if h[58] != '`' || h[59] != '\n' {
			return out, fmt.Errorf("ar: bad header magic at %d", off)
		}
		name := strings.TrimRight(string(h[0:16]), " ")
		name = strings.TrimSuffix(name, "/")
		mt, _ := strconv.Atoi(strings.TrimSpace(string(h[16:28])))
		mode, _ := strconv.ParseInt(strings.TrimSpace(string(h[40:48])), 8, 64)
		size, err := strconv.Atoi(strings.TrimSpace(string(h[48:58])))
		if err != nil {
			return out, fmt.Errorf("ar: bad size at %d", off)
		}
		if off+60+size > len(b) {
			return out, fmt.Errorf("ar: member %s truncated", name)
		}
		out = append(out, arMember{Name: name, Size: size, Mtime: mt, Mode: int(mode), Off: off, Data: b[off+60 : off+60+size]})
		off += 60 + size
		if size%2 == 1 {
			if off >= len(b) {
				return out, fmt.Errorf("ar: missing padding after %s", name)
			}
			if b[off] != '\n' {
				return out, fmt.Errorf("ar: bad padding byte after %s", name)
			}
			off++
		}
	}
	return out, nil
}

// ---------------------------------------------------------------- tar

type tarMember struct {
	Name   string
	Type   string // "0" file, "5" dir, "2" symlink, other typeflags verbatim
	Mode   int
	UID    int
	GID    int
	Uname  string
	Gname  string
	Mtime  int
	Atime  int // PAX/GNU access and change times (0 = not stored)
	Ctime  int
	Size   int
	Link   string
	Format string
	Pax    map[string]string
	Data   []byte
}

func readTar(r io.Reader) ([]tarMember, error) {
	tr := tar.NewReader(r)
	var out []tarMember
	for {
		h, err := tr.Next()
		if err == io.EOF {
			return out, nil
		}
		if err != nil {
			return out, err
		}
		data, err := io.ReadAll(tr)
		if err != nil {
			return out, err
		}
		m := tarMember{Name: h.Name, Type: string([]byte{h.Typeflag}), Mode: int(h.Mode), UID: h.Uid, GID: h.Gid,
			Uname: h.Uname, Gname: h.Gname, Size: int(h.Size), Link: h.Linkname, Format: h.Format.String(), Pax: h.PAXRecords, Data: data}
		if h.Typeflag == 0 {
			m.Type = "0"
		}
		if !h.ModTime.IsZero() {
			m.Mtime = int(h.ModTime.Unix())
		}
		if h.ModTime.Unix() == 0 {
			m.Mtime = 0
		}
		if !h.AccessTime.IsZero() {
			m.Atime = int(h.AccessTime.Unix())
		}
		if !h.ChangeTime.IsZero() {
			m.Ctime = int(h.ChangeTime.Unix())
		}
		out = append(out, m)
	}
}

// endsWithEOA: does a raw tar stream end with the two zero blocks?
func endsWithEOA(raw []byte) bool {
	if len(raw) < 1024 {
		return false
	}
	// find the end of the last member by walking headers
	off := 0
	for off+512 <= len(raw) {
		blk := raw[off : off+512]
		if isZero(blk) {
			return off+1024 <= len(raw) && isZero(raw[off:off+1024])
		}
		sz, err := strconv.ParseInt(strings.TrimRight(strings.TrimSpace(string(blk[124:136])), "\x00"), 8, 64)
		if err != nil {
			return false
		}
		off += 512 + int((sz+511)/512*512)
	}
	return false
}

func isZero(b []byte) bool {
	for _, c := range b {
		if c != 0 {
			return false
		}
	}
	return true
}

// ---------------------------------------------------------------- compression

type gzMember struct {
	Off, End int    // compressed byte range [Off, End)
	Raw      []byte // decompressed bytes
	Mtime    int
	Name     string
}

// splitGzip splits a concatenation of gzip members, tracking compressed offsets.
func splitGzip(b []byte) ([]gzMember, error) {
	var out []gzMember
	br := bytes.NewReader(b)
	for br.Len() > 0 {
		start := len(b) - br.Len()
		zr, err := gzip.NewReader(br)
		if err != nil {
			return out, fmt.Errorf("gzip member at %d: %w", start, err)
		}
		zr.Multistream(false)
		raw, err := io.ReadAll(zr)
		if err != nil {
			return out, fmt.Errorf("gzip member at %d: %w", start, err)
		}
		mt := 0
		if !zr.ModTime.IsZero() {
			mt = int(zr.ModTime.Unix())
		}
		out = append(out, gzMember{Off: start, End: len(b) - br.Len(), Raw: raw, Mtime: mt, Name: zr.Name})
		zr.Close()
	}
	return out, nil
}

func gunzipAll(b []byte) ([]byte, error) {
	zr, err := gzip.NewReader(bytes.NewReader(b))
	if err != nil {
		return nil, err
	}
	return io.ReadAll(zr)
}

func decompress(kind string, b []byte) ([]byte, error) {
	switch kind {
	case "gzip":
		return gunzipAll(b)
	case "xz":
		r, err := xz.NewReader(bytes.NewReader(b))
		if err != nil {
			return nil, err
		}
		return io.ReadAll(r)
	case "lzma":
		r, err := lzma.NewReader(bytes.NewReader(b))
		if err != nil {
			return nil, err
		}
		return io.ReadAll(r)
	case "zstd":
		r, err := zstd.NewReader(bytes.NewReader(b))
		if err != nil {
			return nil, err
		}
		defer r.Close()
		return io.ReadAll(r)
	case "none", "":
		return b, nil
	}
	return nil, fmt.Errorf("unknown compression %q", kind)
}

func sniffCompression(b []byte) string {
	switch {
	case len(b) >= 2 && b[0] == 0x1f && b[1] == 0x8b:
		return "gzip"
	case len(b) >= 6 && bytes.Equal(b[:6], []byte{0xfd, '7', 'z', 'X', 'Z', 0}):
		return "xz"
	case len(b) >= 4 && bytes.Equal(b[:4], []byte{0x28, 0xb5, 0x2f, 0xfd}):
		return "zstd"
	case len(b) >= 3 && b[0] == 0x5d && b[1] == 0 && b[2] == 0:
		return "lzma"
	}
	return "none"
}

// ---------------------------------------------------------------- control files

type kv struct{ K, V string }

// parseControl parses an RFC822-like paragraph; continuation lines (leading
// blank) are appended to the value, separated by "\n", with the leading blank
// removed and a lone "." standing for an empty line (dpkg's convention).
func parseControl(b []byte) ([]kv, error) {
	var out []kv
	for _, ln := range strings.Split(strings.TrimRight(string(b), "\n"), "\n") {
		// dpkg ends the paragraph at a line that is empty or consists of blanks only
		if strings.TrimSpace(ln) == "" {
			return out, fmt.Errorf("control: blank line inside the paragraph (after %d fields)", len(out))
		}
		if ln[0] == ' ' || ln[0] == '\t' {
			if len(out) == 0 {
				return out, errors.New("control: continuation before first field")
			}
			c := ln[1:]
			if c == "." {
				c = ""
			}
			out[len(out)-1].V += "\n" + c
			continue
		}
		i := strings.Index(ln, ":")
		if i <= 0 {
			return out, fmt.Errorf("control: malformed line %q", ln)
		}
		out = append(out, kv{ln[:i], strings.TrimPrefix(ln[i+1:], " ")})
	}
	return out, nil
}

// parsePkginfo parses "key = value" lines (apk / archlinux .PKGINFO).  A line
// without " = " continues the previous value (apk multi-line pkgdesc).
func parsePkginfo(b []byte) []kv {
	var out []kv
	for _, ln := range strings.Split(strings.TrimRight(string(b), "\n"), "\n") {
		if strings.HasPrefix(ln, "#") {
			continue
		}
		i := strings.Index(ln, " = ")
		if i <= 0 || strings.HasPrefix(ln, " ") {
			if len(out) > 0 {
				out[len(out)-1].V += "\n" + ln
			}
			continue
		}
		out = append(out, kv{ln[:i], ln[i+3:]})
	}
	return out
}

// ---------------------------------------------------------------- digests

type digests struct{ Cid, MD5, SHA1, SHA256 string }

func digestsOf(b []byte) digests {
	m := md5.Sum(b)
	s1 := sha1.Sum(b)
	s2 := sha256.Sum256(b)
	return digests{Cid: "c" + hex.EncodeToString(s2[:8]), MD5: hex.EncodeToString(m[:]), SHA1: hex.EncodeToString(s1[:]), SHA256: hex.EncodeToString(s2[:])}
}

// ---------------------------------------------------------------- rpm

type rpmEntry struct {
	Tag, Type, Off, Count int
}

type rpmHeader struct {
	Start, End int // byte range of the header structure (without padding)
	Entries    []rpmEntry
	Store      []byte
	Raw        []byte
}

func parseRpmHeader(b []byte, off int) (*rpmHeader, error) {
	if off+16 > len(b) {
		return nil, errors.New("rpm: truncated header intro")
	}
	if !bytes.Equal(b[off:off+4], []byte{0x8e, 0xad, 0xe8, 0x01}) {
		return nil, fmt.Errorf("rpm: bad header magic at %d", off)
	}
	n := int(binary.BigEndian.Uint32(b[off+8:]))
	hs := int(binary.BigEndian.Uint32(b[off+12:]))
	end := off + 16 + 16*n + hs
	if end > len(b) {
		return nil, errors.New("rpm: truncated header")
	}
	h := &rpmHeader{Start: off, End: end, Raw: b[off:end], Store: b[off+16+16*n : end]}
	for i := 0; i < n; i++ {
		e := b[off+16+16*i:]
		h.Entries = append(h.Entries, rpmEntry{
			Tag:   int(int32(binary.BigEndian.Uint32(e[0:]))),
			Type:  int(binary.BigEndian.Uint32(e[4:])),
			Off:   int(binary.BigEndian.Uint32(e[8:])),
			Count: int(binary.BigEndian.Uint32(e[12:])),
		})
	}
	// the sanity checks rpm itself applies to every index entry when it loads a header (lib/header.c headerVerifyInfo):
	// a known type, a positive count, the alignment of the type, data inside the store
	align := map[int]int{3: 2, 4: 4, 5: 8}
	for _, en := range h.Entries {
		if en.Type < 0 || en.Type > 9 {
			return h, fmt.Errorf("rpm: tag %d has unknown type %d", en.Tag, en.Type)
		}
		if en.Count <= 0 {
			return h, fmt.Errorf("rpm: tag %d has count %d (rpm rejects an index entry without data)", en.Tag, en.Count)
		}
		if a := align[en.Type]; a != 0 && en.Off%a != 0 {
			return h, fmt.Errorf("rpm: tag %d (type %d) at unaligned offset %d", en.Tag, en.Type, en.Off)
		}
		if en.Off < 0 || en.Off > len(h.Store) {
			return h, fmt.Errorf("rpm: tag %d offset %d outside the store (%d bytes)", en.Tag, en.Off, len(h.Store))
		}
	}
	return h, nil
}

func (h *rpmHeader) find(tag int) *rpmEntry {
	for i := range h.Entries {
		if h.Entries[i].Tag == tag {
			return &h.Entries[i]
		}
	}
	return nil
}

func (h *rpmHeader) strs(tag int) []string {
	e := h.find(tag)
	if e == nil {
		return nil
	}
	switch e.Type {
	case 6, 8, 9: // STRING, STRING_ARRAY, I18NSTRING
		var out []string
		p := e.Off
		for i := 0; i < e.Count && p < len(h.Store); i++ {
			q := bytes.IndexByte(h.Store[p:], 0)
			if q < 0 {
				q = len(h.Store) - p
			}
			out = append(out, string(h.Store[p:p+q]))
			p += q + 1
		}
		return out
	}
	return nil
}

func (h *rpmHeader) str(tag int) (string, bool) {
	s := h.strs(tag)
	if len(s) == 0 {
		return "", false
	}
	return s[0], true
}

func (h *rpmHeader) ints(tag int) []int64 {
	e := h.find(tag)
	if e == nil {
		return nil
	}
	var out []int64
	for i := 0; i < e.Count; i++ {
		switch e.Type {
		case 2: // INT8
			out = append(out, int64(h.Store[e.Off+i]))
		case 3: // INT16
			out = append(out, int64(binary.BigEndian.Uint16(h.Store[e.Off+2*i:])))
		case 4: // INT32
			out = append(out, int64(binary.BigEndian.Uint32(h.Store[e.Off+4*i:])))
		case 5: // INT64
			out = append(out, int64(binary.BigEndian.Uint64(h.Store[e.Off+8*i:])))
		}
	}
	return out
}

func (h *rpmHeader) bin(tag int) []byte {
	e := h.find(tag)
	if e == nil || e.Type != 7 {
		return nil
	}
	return h.Store[e.Off : e.Off+e.Count]
}

type cpioEntry struct {
	Name  string
	Mode  int
	Mtime int
	Size  int
	Data  []byte
}

func parseCpio(b []byte) ([]cpioEntry, error) {
	var out []cpioEntry
	off := 0
	hexf := func(s []byte) int {
		v, _ := strconv.ParseUint(string(s), 16, 64)
		return int(v)
	}
	for {
		if off+110 > len(b) {
			return out, errors.New("cpio: truncated header")
		}
		h := b[off : off+110]
		if string(h[:6]) != "070701" {
			return out, fmt.Errorf("cpio: bad magic at %d", off)
		}
		mode := hexf(h[14:22])
		mtime := hexf(h[46:54])
		fsize := hexf(h[54:62])
		nsize := hexf(h[94:102])
		name := string(b[off+110 : off+110+nsize-1])
		off += (110 + nsize + 3) &^ 3
		if name == "TRAILER!!!" {
			return out, nil
		}
		if off+fsize > len(b) {
			return out, errors.New("cpio: truncated data")
		}
		out = append(out, cpioEntry{Name: name, Mode: mode, Mtime: mtime, Size: fsize, Data: b[off : off+fsize]})
		off = (off + fsize + 3) &^ 3
	}
}

type rpmFile struct {
	Name   string
	Size   int
	Mode   int
	Mtime  int
	Digest string
	Linkto string
	Flags  int
	User   string
	Group  string
}

type rpmPkg struct {
	Lead         []byte
	Sig, Hdr     *rpmHeader
	SigPadEnd    int
	Payload      []byte // compressed, as shipped
	PayloadRaw   []byte // decompressed cpio
	Compression  string
	Files        []rpmFile
	Cpio         []cpioEntry
	HeaderAndPay []byte
}

func parseRpm(b []byte) (*rpmPkg, error) {
	if len(b) < 96 || !bytes.Equal(b[:4], []byte{0xed, 0xab, 0xee, 0xdb}) {
		return nil, errors.New("rpm: bad lead")
	}
	p := &rpmPkg{Lead: b[:96]}
	var err error
	if p.Sig, err = parseRpmHeader(b, 96); err != nil {
		return nil, fmt.Errorf("signature header: %w", err)
	}
	p.SigPadEnd = (p.Sig.End + 7) &^ 7
	if p.Hdr, err = parseRpmHeader(b, p.SigPadEnd); err != nil {
		return nil, fmt.Errorf("header: %w", err)
	}
	p.Payload = b[p.Hdr.End:]
	p.HeaderAndPay = b[p.Hdr.Start:]
	p.Compression = sniffCompression(p.Payload)
	if p.PayloadRaw, err = decompress(p.Compression, p.Payload); err != nil {
		return nil, fmt.Errorf("payload (%s): %w", p.Compression, err)
	}
	if p.Cpio, err = parseCpio(p.PayloadRaw); err != nil {
		return nil, err
	}
	base := p.Hdr.strs(1117)
	dirn := p.Hdr.strs(1118)
	diri := p.Hdr.ints(1116)
	sizes := p.Hdr.ints(1028)
	modes := p.Hdr.ints(1030)
	mts := p.Hdr.ints(1034)
	digs := p.Hdr.strs(1035)
	links := p.Hdr.strs(1036)
	flags := p.Hdr.ints(1037)
	users := p.Hdr.strs(1039)
	groups := p.Hdr.strs(1040)
	for i := range base {
		if i >= len(diri) || int(diri[i]) >= len(dirn) {
			return nil, errors.New("rpm: inconsistent file tags")
		}
		f := rpmFile{Name: dirn[diri[i]] + base[i]}
		get := func(a []int64) int {
			if i < len(a) {
				return int(a[i])
			}
			return -1
		}
		gets := func(a []string) string {
			if i < len(a) {
				return a[i]
			}
			return ""
		}
		f.Size, f.Mode, f.Mtime, f.Flags = get(sizes), get(modes), get(mts), get(flags)
		f.Digest, f.Linkto, f.User, f.Group = gets(digs), gets(links), gets(users), gets(groups)
		p.Files = append(p.Files, f)
	}
	return p, nil
}

// ---------------------------------------------------------------- mtree

type mtreeLine struct {
	Path string
	KV   map[string]string
}

func parseMtree(b []byte) ([]mtreeLine, error) {
	var out []mtreeLine
	lines := strings.Split(strings.TrimRight(string(b), "\n"), "\n")
	if len(lines) == 0 || lines[0] != "#mtree" {
		return nil, errors.New("mtree: missing #mtree signature")
	}
	for _, ln := range lines[1:] {
		if ln == "" {
			continue
		}
		// the path may contain spaces only if written unescaped (nfpm does not escape)
		idx := strings.Index(ln, " time=")
		if idx < 0 {
			return out, fmt.Errorf("mtree: malformed line %q", ln)
		}
		m := mtreeLine{Path: ln[:idx], KV: map[string]string{}}
		rest := ln[idx+1:]
		// link= is last and may contain spaces
		if j := strings.Index(rest, " link="); j >= 0 {
			m.KV["link"] = rest[j+6:]
			rest = rest[:j]
		}
		for _, f := range strings.Fields(rest) {
			if k, v, ok := strings.Cut(f, "="); ok {
				m.KV[k] = v
			}
		}
		out = append(out, m)
	}
	return out, nil
}

// parseInstall splits an archlinux .INSTALL into its functions.
func parseInstall(b []byte) (map[string][]byte, []string, error) {
	out := map[string][]byte{}
	var order []string
	rest := b
	for len(rest) > 0 {
		if !bytes.HasPrefix(rest, []byte("function ")) {
			return out, order, fmt.Errorf(".INSTALL: expected 'function' at %q", string(rest[:min(len(rest), 30)]))
		}
		nl := bytes.IndexByte(rest, '\n')
		head := string(rest[:nl])
		name := strings.TrimSuffix(strings.TrimPrefix(head, "function "), "() {")
		body := rest[nl+1:]
		// the body ends at the last "\n}\n\n" before the next "function " header (or the end)
		end := -1
		search := 0
		for {
			i := bytes.Index(body[search:], []byte("\n}\n\n"))
			if i < 0 {
				break
			}
			i += search
			after := body[i+4:]
			if len(after) == 0 || bytes.HasPrefix(after, []byte("function ")) {
				end = i
				// prefer the LAST terminator that is followed by a header whose name is a known slot
				if len(after) == 0 {
					break
				}
				an := bytes.IndexByte(after, '\n')
				if an > 0 && strings.HasSuffix(string(after[:an]), "() {") {
					break
				}
			}
			search = i + 1
		}
		if end < 0 {
			return out, order, errors.New(".INSTALL: unterminated function " + name)
		}
		out[name] = body[:end]
		order = append(order, name)
		rest = body[end+4:]
	}
	return out, order, nil
}

func sortedKeys[V any](m map[string]V) []string {
	ks := make([]string, 0, len(m))
	for k := range m {
		ks = append(ks, k)
	}
	sort.Strings(ks)
	return ks
}
