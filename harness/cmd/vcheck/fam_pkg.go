package main

// Family "pkg": builds real packages for all five formats from one parsed
// configuration and logs one event per archive member / metadata field /
// digest line / script slot, in stream order, as decoded by the independent
// readers of decode.go.  Serves C01, C02, C03, C04, C08, C09 (and the version
// and file-name clauses of C14 / C15).

import (
	"bytes"
	"encoding/hex"
	"fmt"
	"io"
	"math/rand"
	"os"
	"os/exec"
	"path/filepath"
	"sort"
	"strconv"
	"strings"
	"time"

	"github.com/goreleaser/nfpm/v2"
	_ "github.com/goreleaser/nfpm/v2/apk"
	_ "github.com/goreleaser/nfpm/v2/arch"
	_ "github.com/goreleaser/nfpm/v2/deb"
	"github.com/goreleaser/nfpm/v2/deprecation"
	_ "github.com/goreleaser/nfpm/v2/ipk"
	_ "github.com/goreleaser/nfpm/v2/rpm"
)

var allFormats = []string{"deb", "rpm", "apk", "archlinux", "ipk"}

func init() { deprecation.Noticer = io.Discard }

type PkgCase struct {
	ID      int
	Profile string
	Cfg     *Cfg
	Nodes   []Node
	Root    string
	Formats []string
	// the YAML text given to the parser spells some values as environment references (EnvEdit rewrites the rendered text, Env
	// is the mapping the parser is given); the abstract configuration in the trace has the literal values.  Such cases are
	// packaged from the parsed configuration as it is (Parse applies the defaults; no second WithDefaults by the caller).
	EnvEdit func(yaml string) string
	Env     map[string]string
	// Rescript: after the case has been built, the script files are rewritten in place (same paths, other bytes) and the same
	// configuration is built again in this process - the second packages carry the NEW bytes
	Rescript bool
}

// ---------------------------------------------------------------- building

func parseCfg(yaml string) (nfpm.Config, error) {
	return nfpm.ParseWithEnvMapping(strings.NewReader(yaml), func(string) string { return "" })
}

func buildFormat(cfg *nfpm.Config, f string) ([]byte, string, error) {
	pk, err := nfpm.Get(f)
	if err != nil {
		return nil, "", err
	}
	fname := ""
	if i2, err := cfg.Get(f); err == nil {
		fname = pk.ConventionalFileName(nfpm.WithDefaults(i2))
	}
	info, err := cfg.Get(f)
	if err != nil {
		return nil, fname, err
	}
	info = nfpm.WithDefaults(info)
	var buf bytes.Buffer
	err = pk.Package(info, &buf)
	return buf.Bytes(), fname, err
}

// buildLikeCLI does what the command-line tool and goreleaser do: the effective settings of the format are obtained once, the
// conventional file name is asked of them, and the SAME Info is then packaged.
func buildLikeCLI(cfg *nfpm.Config, f string) ([]byte, string, error) {
	pk, err := nfpm.Get(f)
	if err != nil {
		return nil, "", err
	}
	info, err := cfg.Get(f)
	if err != nil {
		return nil, "", err
	}
	info = nfpm.WithDefaults(info)
	fname := pk.ConventionalFileName(info)
	var buf bytes.Buffer
	err = pk.Package(info, &buf)
	return buf.Bytes(), fname, err
}

// buildAsParsed packages the effective settings as Config.Get hands them out (Parse has applied the defaults to the
// configuration; a library caller need not apply them again).
func buildAsParsed(cfg *nfpm.Config, f string) ([]byte, string, error) {
	pk, err := nfpm.Get(f)
	if err != nil {
		return nil, "", err
	}
	info, err := cfg.Get(f)
	if err != nil {
		return nil, "", err
	}
	fname := ""
	if i2, err := cfg.Get(f); err == nil {
		fname = pk.ConventionalFileName(i2)
	}
	var buf bytes.Buffer
	err = pk.Package(info, &buf)
	return buf.Bytes(), fname, err
}

func errClass(err error) string {
	if err == nil {
		return ""
	}
	return classifyPlanErr(err)
}

// ---------------------------------------------------------------- events

func tarEv(in string, i int, m tarMember) M {
	d := digestsOf(m.Data)
	ps := ""
	if m.Pax != nil {
		ps = m.Pax["APK-TOOLS.checksum.SHA1"]
	}
	return M{"ev": "tar", "in": in, "i": i, "name": safeStr(m.Name), "type": m.Type, "mode": m.Mode & 0o7777, "modex": clampInt(m.Mode >> 12), "modeoct": strconv.FormatInt(int64(m.Mode), 8), "uid": m.UID, "gid": m.GID,
		"uname": m.Uname, "gname": m.Gname, "mt": clampInt(m.Mtime), "atime": clampInt(m.Atime), "ctime": clampInt(m.Ctime), "size": m.Size, "dlen": len(m.Data), "link": safeStr(m.Link),
		"cid": d.Cid, "md5": d.MD5, "sha1": d.SHA1, "sha256": d.SHA256, "pax_sha1": ps, "tfmt": m.Format}
}

func clampInt(v int) int {
	if v >= 1<<31 {
		return 1<<31 - 1
	}
	if v <= -(1 << 31) {
		return -(1<<31 - 1)
	}
	return v
}

func metaEvs(in string, fields []kv) []M {
	// group repeated keys, keeping first-appearance order
	var order []string
	vals := map[string][]any{}
	for _, f := range fields {
		if _, ok := vals[f.K]; !ok {
			order = append(order, f.K)
		}
		vals[f.K] = append(vals[f.K], safeStr(f.V))
	}
	var out []M
	for i, k := range order {
		out = append(out, M{"ev": "meta", "in": in, "i": i + 1, "key": k, "values": vals[k]})
	}
	return out
}

func structEv(key string, val any) M {
	switch v := val.(type) {
	case bool:
		if v {
			return M{"ev": "struct", "key": key, "value": "true"}
		}
		return M{"ev": "struct", "key": key, "value": "false"}
	case int:
		return M{"ev": "struct", "key": key, "value": strconv.Itoa(clampInt(v))}
	case string:
		return M{"ev": "struct", "key": key, "value": v}
	}
	return M{"ev": "struct", "key": key, "value": fmt.Sprint(val)}
}

var debSlotNames = map[string]bool{"preinst": true, "postinst": true, "prerm": true, "postrm": true, "rules": true, "templates": true, "config": true}

func controlTarEvents(ctl []tarMember, isDeb bool) (evs []M, err error) {
	for i, m := range ctl {
		evs = append(evs, tarEv("control", i+1, m))
		base := strings.TrimPrefix(m.Name, "./")
		switch {
		case base == "control":
			fields, e := parseControl(m.Data)
			if e != nil {
				return evs, e
			}
			evs = append(evs, metaEvs("control", fields)...)
		case base == "md5sums":
			j := 0
			for _, ln := range strings.Split(strings.TrimRight(string(m.Data), "\n"), "\n") {
				if ln == "" {
					continue
				}
				j++
				hexv, name, ok := strings.Cut(ln, "  ")
				if !ok {
					return evs, fmt.Errorf("md5sums: malformed line %q", ln)
				}
				evs = append(evs, M{"ev": "digest", "kind": "md5sums", "i": j, "name": safeStr(name), "hex": hexv})
			}
		case base == "conffiles":
			j := 0
			for _, ln := range strings.Split(strings.TrimRight(string(m.Data), "\n"), "\n") {
				if ln == "" {
					continue
				}
				j++
				evs = append(evs, M{"ev": "conf", "i": j, "path": safeStr(ln)})
			}
		case base == "triggers":
			var tf []kv
			for _, ln := range strings.Split(strings.TrimRight(string(m.Data), "\n"), "\n") {
				if k, v, ok := strings.Cut(ln, " "); ok {
					tf = append(tf, kv{k, v})
				}
			}
			evs = append(evs, metaEvs("triggers", tf)...)
		case debSlotNames[base]:
			d := digestsOf(m.Data)
			evs = append(evs, M{"ev": "slot", "name": base, "mode": m.Mode & 0o7777, "cid": d.Cid, "mt": clampInt(m.Mtime), "size": len(m.Data)})
		}
	}
	return evs, nil
}

// ---- foreign readers: GNU tar and GNU ar read the same bytes and must see the same members (names, in order, and for
// regular files the sizes) as the Go decoders above, which share archive/tar with the code under test.
var gnuTarPath, gnuArPath = lookTool("tar"), lookTool("ar")

func lookTool(n string) string {
	p, err := exec.LookPath(n)
	if err != nil {
		return ""
	}
	return p
}

// gnuTarAgrees lists a tar stream (gz: gzip-compressed, possibly several concatenated gzip members) with GNU tar and
// compares with the members the Go reader found.  "na" when tar is not installed.
func gnuTarAgrees(stream []byte, gz bool, mem []tarMember) string {
	if gz {
		return gnuTarAgreesC(stream, "gzip", mem)
	}
	return gnuTarAgreesC(stream, "", mem)
}

// comp: "" (plain tar), "gzip" or "xz" - tar then runs the gzip / xz program itself, a foreign decompressor too
func gnuTarAgreesC(stream []byte, comp string, mem []tarMember) string {
	if gnuTarPath == "" {
		return "na"
	}
	args := []string{"--quoting-style=literal", "--numeric-owner", "-tvf", "-"}
	switch comp {
	case "gzip":
		args = append([]string{"-z"}, args...)
	case "xz":
		if lookTool("xz") == "" {
			return "na"
		}
		args = append([]string{"-J"}, args...)
	}
	cmd := exec.Command(gnuTarPath, args...)
	cmd.Env = append(os.Environ(), "LC_ALL=C", "TZ=UTC")
	cmd.Stdin = bytes.NewReader(stream)
	var so, se bytes.Buffer
	cmd.Stdout, cmd.Stderr = &so, &se
	if err := cmd.Run(); err != nil {
		msg := strings.TrimSpace(se.String())
		if len(msg) > 200 {
			msg = msg[:200]
		}
		return "gnu tar rejects the stream: " + safeStr(msg)
	}
	lines := strings.Split(strings.TrimRight(so.String(), "\n"), "\n")
	if so.Len() == 0 {
		lines = nil
	}
	if len(lines) != len(mem) {
		return fmt.Sprintf("gnu tar lists %d members, the decoder %d", len(lines), len(mem))
	}
	for i, ln := range lines {
		// "-rw-r--r-- 0/0  size date time name[ -> target]"
		f := strings.Fields(ln)
		if len(f) < 6 {
			return "unparsable listing line " + safeStr(ln)
		}
		name := mem[i].Name
		want := name
		if mem[i].Type == "2" {
			want = name + " -> " + mem[i].Link
		} else if mem[i].Type == "1" {
			want = name + " link to " + mem[i].Link
		}
		if !strings.HasSuffix(ln, " "+want) {
			return fmt.Sprintf("member %d: gnu tar %s, the decoder %s", i+1, safeStr(ln), safeStr(want))
		}
		if mem[i].Type == "0" && f[2] != strconv.Itoa(len(mem[i].Data)) {
			return fmt.Sprintf("member %d (%s): gnu tar size %s, the decoder %d", i+1, safeStr(name), f[2], len(mem[i].Data))
		}
	}
	return "ok"
}

// foreignDecompressAgrees runs the gzip / xz program on a compressed stream and compares with what the Go decoder produced.
func foreignDecompressAgrees(kind string, comp, want []byte) string {
	var cmd *exec.Cmd
	switch kind {
	case "gzip":
		if lookTool("gzip") == "" {
			return "na"
		}
		cmd = exec.Command("gzip", "-dc")
	case "xz":
		if lookTool("xz") == "" {
			return "na"
		}
		cmd = exec.Command("xz", "-dc")
	case "lzma":
		if lookTool("xz") == "" {
			return "na"
		}
		cmd = exec.Command("xz", "--format=lzma", "-dc")
	default:
		return "na"
	}
	cmd.Stdin = bytes.NewReader(comp)
	var so, se bytes.Buffer
	cmd.Stdout, cmd.Stderr = &so, &se
	if err := cmd.Run(); err != nil {
		msg := strings.TrimSpace(se.String())
		if len(msg) > 200 {
			msg = msg[:200]
		}
		return kind + " program rejects the stream: " + safeStr(msg)
	}
	if !bytes.Equal(so.Bytes(), want) {
		return fmt.Sprintf("%s program yields %d bytes, the decoder %d (or other content)", kind, so.Len(), len(want))
	}
	return "ok"
}

func gnuArAgrees(b []byte, mem []arMember, scratch string, id int) string {
	if gnuArPath == "" {
		return "na"
	}
	p := filepath.Join(scratch, fmt.Sprintf("ar-%d.deb", id))
	if os.WriteFile(p, b, 0o644) != nil {
		return "na"
	}
	defer os.Remove(p)
	out, err := exec.Command(gnuArPath, "t", p).CombinedOutput()
	if err != nil {
		return "gnu ar rejects the archive: " + safeStr(strings.TrimSpace(string(out)))
	}
	var names []string
	for _, m := range mem {
		names = append(names, m.Name)
	}
	if got := strings.Split(strings.TrimRight(string(out), "\n"), "\n"); strings.Join(got, "|") != strings.Join(names, "|") {
		return fmt.Sprintf("gnu ar lists %v, the decoder %v", got, names)
	}
	return "ok"
}

func emitDeb(b []byte, scratch string, id int) ([]M, error) {
	var evs []M
	mem, err := parseAr(b)
	if err != nil {
		return evs, err
	}
	for i, m := range mem {
		d := digestsOf(m.Data)
		evs = append(evs, M{"ev": "outer", "i": i + 1, "name": m.Name, "size": m.Size, "mt": clampInt(m.Mtime), "mode": m.Mode & 0o7777, "off": m.Off, "cid": d.Cid,
			"text": func() string {
				if m.Name == "debian-binary" {
					return string(m.Data)
				}
				return ""
			}(), "comp": sniffCompression(m.Data)})
	}
	evs = append(evs, structEv("foreign:ar", gnuArAgrees(b, mem, scratch, id)))
	for _, m := range mem {
		switch {
		case strings.HasPrefix(m.Name, "control.tar"):
			// (nfpm writes control.tar.gz - that is a clause of the spec; the decoder reads whatever dpkg allows)
			craw, err := decompress(sniffCompression(m.Data), m.Data)
			if err != nil {
				return evs, fmt.Errorf("%s: %v", m.Name, err)
			}
			if gz, e := splitGzip(m.Data); e == nil && len(gz) == 1 {
				evs = append(evs, structEv("gz_mtime:control", gz[0].Mtime))
			}
			ctl, err := readTar(bytes.NewReader(craw))
			if err != nil {
				return evs, fmt.Errorf("control tar: %w", err)
			}
			if cc := sniffCompression(m.Data); cc == "gzip" || cc == "xz" {
				evs = append(evs, structEv("foreign:tar:control", gnuTarAgreesC(m.Data, cc, ctl)))
			} else {
				evs = append(evs, structEv("foreign:tar:control", gnuTarAgrees(craw, false, ctl)))
			}
			ce, err := controlTarEvents(ctl, true)
			evs = append(evs, ce...)
			if err != nil {
				return evs, err
			}
		case strings.HasPrefix(m.Name, "data.tar"):
			kind := map[string]string{"data.tar.gz": "gzip", "data.tar.xz": "xz", "data.tar.zst": "zstd", "data.tar": "none"}[m.Name]
			raw, err := decompress(kind, m.Data)
			if err != nil {
				return evs, fmt.Errorf("%s: %w", m.Name, err)
			}
			if kind == "gzip" {
				if gz, e := splitGzip(m.Data); e == nil && len(gz) > 0 {
					evs = append(evs, structEv("gz_mtime:data", gz[0].Mtime))
				}
			}
			evs = append(evs, structEv("eoa:data", endsWithEOA(raw)))
			dm, err := readTar(bytes.NewReader(raw))
			if err != nil {
				return evs, fmt.Errorf("data tar: %w", err)
			}
			if kind == "gzip" || kind == "xz" {
				evs = append(evs, structEv("foreign:tar:data", gnuTarAgreesC(m.Data, kind, dm)))
			} else {
				evs = append(evs, structEv("foreign:tar:data", gnuTarAgrees(raw, false, dm)))
			}
			for i, t := range dm {
				evs = append(evs, tarEv("data", i+1, t))
				if t.Type == "0" && strings.HasSuffix(t.Name, "/changelog.Debian.gz") {
					if txt, e := gunzipAll(t.Data); e == nil {
						evs = append(evs, M{"ev": "changelog", "where": "deb", "text": safeStr(string(txt))})
						if gz, e := splitGzip(t.Data); e == nil && len(gz) > 0 {
							evs = append(evs, structEv("gz_mtime:changelog", gz[0].Mtime))
						}
					}
				}
			}
		}
	}
	// dpkg-deb as an independent acceptance check
	if dpkg, err := exec.LookPath("dpkg-deb"); err == nil {
		p := filepath.Join(scratch, fmt.Sprintf("dpkg-%d.deb", id))
		if os.WriteFile(p, b, 0o644) == nil {
			out, e1 := exec.Command(dpkg, "--info", p).CombinedOutput()
			out2, e2 := exec.Command(dpkg, "--contents", p).CombinedOutput()
			ok := e1 == nil && e2 == nil
			msg := ""
			if !ok {
				msg = safeStr(strings.TrimSpace(string(out) + string(out2)))
				if len(msg) > 300 {
					msg = msg[:300]
				}
			}
			evs = append(evs, M{"ev": "struct", "key": "dpkg_deb_accepts", "value": strconv.FormatBool(ok) + msg})
			os.Remove(p)
		}
	}
	return evs, nil
}

func emitIpk(b []byte) ([]M, error) {
	var evs []M
	gz, err := splitGzip(b)
	if err != nil || len(gz) != 1 {
		return evs, fmt.Errorf("ipk: outer gzip: %v (%d members)", err, len(gz))
	}
	evs = append(evs, structEv("gz_mtime:outer", gz[0].Mtime), structEv("eoa:outer", endsWithEOA(gz[0].Raw)))
	outer, err := readTar(bytes.NewReader(gz[0].Raw))
	if err != nil {
		return evs, fmt.Errorf("ipk outer tar: %w", err)
	}
	evs = append(evs, structEv("foreign:tar:outer", gnuTarAgrees(b, true, outer)))
	for i, m := range outer {
		d := digestsOf(m.Data)
		txt := ""
		if strings.HasSuffix(m.Name, "debian-binary") {
			txt = string(m.Data)
		}
		evs = append(evs, M{"ev": "outer", "i": i + 1, "name": m.Name, "size": m.Size, "mt": clampInt(m.Mtime), "mode": m.Mode & 0o7777, "off": 0, "cid": d.Cid, "text": txt, "comp": sniffCompression(m.Data)})
	}
	for _, m := range outer {
		switch strings.TrimPrefix(m.Name, "./") {
		case "control.tar.gz":
			g, err := splitGzip(m.Data)
			if err != nil || len(g) != 1 {
				return evs, fmt.Errorf("ipk control.tar.gz: %v", err)
			}
			evs = append(evs, structEv("gz_mtime:control", g[0].Mtime))
			ctl, err := readTar(bytes.NewReader(g[0].Raw))
			if err != nil {
				return evs, err
			}
			evs = append(evs, structEv("foreign:tar:control", gnuTarAgrees(m.Data, true, ctl)))
			ce, err := controlTarEvents(ctl, false)
			evs = append(evs, ce...)
			if err != nil {
				return evs, err
			}
		case "data.tar.gz":
			g, err := splitGzip(m.Data)
			if err != nil || len(g) != 1 {
				return evs, fmt.Errorf("ipk data.tar.gz: %v", err)
			}
			evs = append(evs, structEv("gz_mtime:data", g[0].Mtime), structEv("eoa:data", endsWithEOA(g[0].Raw)))
			dm, err := readTar(bytes.NewReader(g[0].Raw))
			if err != nil {
				return evs, err
			}
			evs = append(evs, structEv("foreign:tar:data", gnuTarAgrees(m.Data, true, dm)))
			for i, t := range dm {
				evs = append(evs, tarEv("data", i+1, t))
			}
		}
	}
	return evs, nil
}

var apkSlotNames = map[string]bool{".pre-install": true, ".post-install": true, ".pre-deinstall": true, ".post-deinstall": true, ".pre-upgrade": true, ".post-upgrade": true}

func emitApk(b []byte) ([]M, error) {
	var evs []M
	gz, err := splitGzip(b)
	if err != nil {
		return evs, err
	}
	// classify segments by their first member
	type seg struct {
		kind string
		g    gzMember
		mem  []tarMember
	}
	var segs []seg
	for _, g := range gz {
		mem, err := readTar(bytes.NewReader(g.Raw))
		if err != nil {
			return evs, fmt.Errorf("apk segment tar: %w", err)
		}
		kind := "data"
		if len(mem) > 0 && strings.HasPrefix(mem[0].Name, ".SIGN.") {
			kind = "signature"
		} else if len(mem) > 0 && mem[0].Name == ".PKGINFO" {
			kind = "control"
		} else if len(segs) == 0 || (len(segs) == 1 && segs[0].kind == "signature") {
			kind = "control?"
		}
		segs = append(segs, seg{kind, g, mem})
	}
	for i, s := range segs {
		comp := b[s.g.Off:s.g.End]
		d := digestsOf(comp)
		first := ""
		if len(s.mem) > 0 {
			first = s.mem[0].Name
		}
		evs = append(evs, M{"ev": "outer", "i": i + 1, "name": s.kind, "size": len(comp), "mt": clampInt(s.g.Mtime), "mode": 0, "off": s.g.Off, "cid": d.Cid,
			"text": "", "comp": "gzip", "eoa": endsWithEOA(s.g.Raw), "sha1": d.SHA1, "sha256": d.SHA256, "first": safeStr(first), "rawlen": len(s.g.Raw)})
	}
	// apk reads the concatenation of all gzip members as ONE tar stream
	{
		var whole bytes.Buffer
		total := 0
		for _, s := range segs {
			whole.Write(s.g.Raw)
			total += len(s.mem)
		}
		wm, werr := readTar(bytes.NewReader(whole.Bytes()))
		switch {
		case werr != nil:
			evs = append(evs, structEv("apk_whole_stream", "error: "+safeStr(werr.Error())))
		case len(wm) != total:
			evs = append(evs, structEv("apk_whole_stream", fmt.Sprintf("members %d of %d", len(wm), total)))
		default:
			evs = append(evs, structEv("apk_whole_stream", "ok"))
		}
		// ... and so does GNU tar given the file as it is (gzip members concatenated, cut tar segments)
		var all []tarMember
		for _, s := range segs {
			all = append(all, s.mem...)
		}
		evs = append(evs, structEv("foreign:tar:whole", gnuTarAgrees(b, true, all)))
	}
	for _, s := range segs {
		for i, t := range s.mem {
			in := s.kind
			evs = append(evs, tarEv(in, i+1, t))
			if t.Name == ".PKGINFO" {
				evs = append(evs, metaEvs("pkginfo", parsePkginfo(t.Data))...)
			}
			if s.kind == "control" && apkSlotNames[t.Name] {
				d := digestsOf(t.Data)
				evs = append(evs, M{"ev": "slot", "name": t.Name, "mode": t.Mode & 0o7777, "cid": d.Cid, "mt": clampInt(t.Mtime), "size": len(t.Data)})
			}
		}
	}
	return evs, nil
}

var archSlotNames = []string{"pre_install", "post_install", "pre_upgrade", "post_upgrade", "pre_remove", "post_remove"}

func emitArch(b []byte) ([]M, error) {
	var evs []M
	raw, err := decompress("zstd", b)
	if err != nil {
		return evs, fmt.Errorf("archlinux zstd: %w", err)
	}
	evs = append(evs, structEv("comp:outer", sniffCompression(b)), structEv("eoa:outer", endsWithEOA(raw)))
	mem, err := readTar(bytes.NewReader(raw))
	if err != nil {
		return evs, fmt.Errorf("archlinux tar: %w", err)
	}
	evs = append(evs, structEv("foreign:tar:outer", gnuTarAgrees(raw, false, mem)))
	for i, t := range mem {
		evs = append(evs, tarEv("data", i+1, t))
		switch t.Name {
		case ".PKGINFO":
			evs = append(evs, metaEvs("pkginfo", parsePkginfo(t.Data))...)
		case ".MTREE":
			g, err := splitGzip(t.Data)
			if err != nil || len(g) != 1 {
				return evs, fmt.Errorf(".MTREE gzip: %v", err)
			}
			evs = append(evs, structEv("gz_mtime:mtree", g[0].Mtime))
			lines, err := parseMtree(g[0].Raw)
			if err != nil {
				return evs, err
			}
			for j, ln := range lines {
				get := func(k string) string { return ln.KV[k] }
				evs = append(evs, M{"ev": "mtree", "i": j + 1, "path": safeStr(ln.Path), "type": get("type"), "mode": get("mode"), "time": get("time"),
					"size": get("size"), "md5": get("md5digest"), "sha256": get("sha256digest"), "link": safeStr(get("link"))})
			}
		case ".INSTALL":
			fns, order, err := parseInstall(t.Data)
			if err != nil {
				return evs, err
			}
			for _, name := range order {
				d := digestsOf(fns[name])
				evs = append(evs, M{"ev": "slot", "name": name, "mode": 0, "cid": d.Cid, "mt": 0, "size": len(fns[name])})
			}
		}
	}
	return evs, nil
}

var rpmSlotTags = map[int]string{1023: "PREIN", 1024: "POSTIN", 1025: "PREUN", 1026: "POSTUN", 1151: "PRETRANS", 1152: "POSTTRANS", 1079: "VERIFYSCRIPT"}

func rpmTagEvents(in string, h *rpmHeader) []M {
	var out []M
	for i, e := range h.Entries {
		if in == "hdr" {
			if _, isSlot := rpmSlotTags[e.Tag]; isSlot {
				continue
			}
			switch e.Tag {
			case 1117, 1116, 1118, 1028, 1030, 1034, 1035, 1036, 1037, 1039, 1040, 1033, 1095, 1096, 1097, 1045, 1140, 1141, 1142, 1143, 1144, 1145: // per-file arrays: reported as rpmfile events
				continue
			}
		}
		var vals []any
		switch e.Type {
		case 6, 8, 9:
			for _, s := range h.strs(e.Tag) {
				vals = append(vals, safeStr(s))
			}
		case 2, 3, 4, 5:
			for _, v := range h.ints(e.Tag) {
				vals = append(vals, strconv.FormatInt(v, 10))
			}
		case 7:
			bb := h.bin(e.Tag)
			if len(bb) <= 64 {
				vals = append(vals, "hex:"+hex.EncodeToString(bb))
			} else {
				vals = append(vals, "bin:"+digestsOf(bb).SHA256, strconv.Itoa(e.Count))
			}
		}
		if vals == nil {
			vals = []any{}
		}
		out = append(out, M{"ev": "meta", "in": in, "i": i + 1, "key": strconv.Itoa(e.Tag), "values": vals})
	}
	return out
}

func emitRpm(b []byte) ([]M, error) {
	var evs []M
	p, err := parseRpm(b)
	if err != nil {
		return evs, err
	}
	hd := digestsOf(p.Hdr.Raw)
	pd := digestsOf(p.Payload)
	evs = append(evs,
		structEv("lead_magic_ok", true),
		structEv("sig_start", p.Sig.Start), structEv("sig_end", p.Sig.End), structEv("hdr_start", p.Hdr.Start), structEv("hdr_end", p.Hdr.End),
		structEv("hdr_sha256", hd.SHA256), structEv("hdr_sha1", hd.SHA1), structEv("payload_sha256", pd.SHA256),
		structEv("payload_len", len(p.Payload)), structEv("payload_rawlen", len(p.PayloadRaw)),
		structEv("hdr_plus_payload_len", len(p.HeaderAndPay)), structEv("hdr_plus_payload_md5", digestsOf(p.HeaderAndPay).MD5),
		structEv("comp:payload", p.Compression), structEv("total_len", len(b)),
		structEv("foreign:decompress:payload", foreignDecompressAgrees(p.Compression, p.Payload, p.PayloadRaw)))
	evs = append(evs, rpmTagEvents("sig", p.Sig)...)
	evs = append(evs, rpmTagEvents("hdr", p.Hdr)...)
	for tag, name := range rpmSlotTags {
		if s, ok := p.Hdr.str(tag); ok {
			d := digestsOf([]byte(s))
			evs = append(evs, M{"ev": "slot", "name": name, "mode": 0, "cid": d.Cid, "mt": 0, "size": len(s)})
		}
	}
	sort.SliceStable(evs, func(i, j int) bool { return false })
	// relations
	for _, r := range []struct {
		kind    string
		n, v, f int
	}{{"provide", 1047, 1113, 1112}, {"require", 1049, 1050, 1048}, {"conflict", 1054, 1055, 1053}, {"obsolete", 1090, 1115, 1114},
		{"recommend", 5046, 5047, 5048}, {"suggest", 5049, 5050, 5051}} {
		names, vers, flags := p.Hdr.strs(r.n), p.Hdr.strs(r.v), p.Hdr.ints(r.f)
		items := make([]M, 0)
		for i := range names {
			v, f := "", 0
			if i < len(vers) {
				v = vers[i]
			}
			if i < len(flags) {
				f = int(flags[i]) & 0xe // LESS|GREATER|EQUAL
			}
			items = append(items, M{"name": safeStr(names[i]), "version": safeStr(v), "sense": f})
		}
		evs = append(evs, M{"ev": "rel", "kind": r.kind, "items": items})
	}
	// files: header list joined with cpio entries
	cp := map[string]*cpioEntry{}
	for i := range p.Cpio {
		cp[strings.TrimPrefix(p.Cpio[i].Name, ".")] = &p.Cpio[i]
	}
	for i, f := range p.Files {
		ev := M{"ev": "rpmfile", "i": i + 1, "name": safeStr(f.Name), "size": f.Size, "mode": f.Mode, "mt": clampInt(f.Mtime), "digest": f.Digest,
			"linkto": safeStr(f.Linkto), "flags": f.Flags, "user": f.User, "group": f.Group,
			"incpio": false, "cid": "", "sha256": "", "csize": 0, "cmode": 0, "cpos": 0}
		if c, ok := cp[f.Name]; ok {
			d := digestsOf(c.Data)
			ev["incpio"], ev["cid"], ev["sha256"], ev["csize"], ev["cmode"] = true, d.Cid, d.SHA256, c.Size, c.Mode&0xffff
			for j := range p.Cpio {
				if &p.Cpio[j] == c {
					ev["cpos"] = j + 1
				}
			}
		}
		evs = append(evs, ev)
	}
	names := make([]any, 0)
	for _, c := range p.Cpio {
		names = append(names, safeStr(strings.TrimPrefix(c.Name, ".")))
	}
	evs = append(evs, M{"ev": "cpio", "names": names})
	return evs, nil
}

func emitFormat(f string, b []byte, scratch string, id int) ([]M, error) {
	switch f {
	case "deb":
		return emitDeb(b, scratch, id)
	case "ipk":
		return emitIpk(b)
	case "apk":
		return emitApk(b)
	case "archlinux":
		return emitArch(b)
	case "rpm":
		return emitRpm(b)
	}
	return nil, fmt.Errorf("unknown format %s", f)
}

// ---------------------------------------------------------------- one case

func runPkgCase(tr *Trace, pc *PkgCase, scratch string) {
	if keepTree {
		keepTree = false
	} else {
		Materialise(pc.Root, pc.Nodes)
	}
	if pc.Cfg.Changelog != nil {
		must(os.WriteFile(filepath.Join(pc.Root, "changelog.yaml"), []byte(pc.Cfg.ChangelogYAML()), 0o644))
	}
	yaml := pc.Cfg.YAML(pc.Root)
	parse := parseCfg
	if pc.EnvEdit != nil {
		yaml = pc.EnvEdit(yaml)
		parse = func(y string) (nfpm.Config, error) {
			return nfpm.ParseWithEnvMapping(strings.NewReader(y), func(k string) string { return pc.Env[k] })
		}
	}
	evs := []M{{"ev": "case", "id": pc.ID, "fam": pc.Profile, "cfg": pc.Cfg.M(), "tree": nodesM(pc.Nodes)}}
	cfg, perr := parse(yaml)
	if perr != nil {
		evs = append(evs, M{"ev": "parse", "err": safeStr(strings.ReplaceAll(perr.Error(), pc.Root, "$ROOT"))})
		evs = append(evs, M{"ev": "endcase"})
		tr.Emit(pc.ID, evs)
		tr.Index(pc.ID, M{"yaml": strings.ReplaceAll(yaml, pc.Root, "$ROOT")})
		return
	}
	evs = append(evs, M{"ev": "parse", "err": ""})
	if pc.Cfg.UseSDE { // (cases configured through the environment are run one at a time, see famPkg)
		os.Setenv("SOURCE_DATE_EPOCH", strconv.Itoa(pc.Cfg.Pmt))
		defer os.Unsetenv("SOURCE_DATE_EPOCH")
		var err error
		if cfg, err = parse(yaml); err != nil {
			panic(err)
		}
	}
	for i, f := range pc.Formats {
		build := buildFormat
		if (pc.ID+i)%2 == 0 { // every other package: name first, then the same Info packaged (the CLI's sequence)
			build = buildLikeCLI
		}
		if pc.EnvEdit != nil {
			build = buildAsParsed
		}
		b, fname, err := build(&cfg, f)
		msg := ""
		if err != nil {
			msg = safeStr(strings.ReplaceAll(err.Error(), pc.Root, "$ROOT"))
		}
		evs = append(evs, M{"ev": "pkg", "fmt": f, "err": msg, "class": errClass(err), "fname": safeStr(fname), "size": len(b)})
		if err == nil {
			me, derr := emitFormat(f, b, scratch, pc.ID)
			evs = append(evs, me...)
			if derr != nil {
				evs = append(evs, M{"ev": "decode_error", "msg": safeStr(derr.Error())})
			}
		}
		evs = append(evs, M{"ev": "endpkg"})
	}
	evs = append(evs, M{"ev": "endcase"})
	tr.Emit(pc.ID, evs)
	tr.Index(pc.ID, M{"yaml": strings.ReplaceAll(yaml, pc.Root, "$ROOT"), "profile": pc.Profile})
	if pc.Rescript {
		c2 := *pc.Cfg
		c2.ScriptCid = map[string]string{}
		for k, v := range pc.Cfg.ScriptCid {
			c2.ScriptCid[k] = v
		}
		nodes2 := append([]Node(nil), pc.Nodes...)
		for i := range nodes2 {
			if nodes2[i].Kind == "file" && strings.HasPrefix(nodes2[i].P, "scripts/") {
				b := append(append([]byte{}, nodes2[i].data...), []byte("\n# rewritten for the second build\n")...)
				nodes2[i].data, nodes2[i].Size, nodes2[i].Cid = b, len(b), cidOf(b)
				must(os.WriteFile(filepath.Join(pc.Root, nodes2[i].P), b, 0o755))
				for slot, pth := range c2.Scripts {
					if pth == nodes2[i].P {
						c2.ScriptCid[slot] = cidOf(b)
					}
				}
				if o := c2.Ov; o != nil {
					for _, ov := range o {
						for slot, pth := range ov.Scripts {
							if pth == nodes2[i].P {
								ov.ScriptCid[slot] = cidOf(b)
							}
						}
					}
				}
				mt := time.Unix(int64(nodes2[i].Mt), 0)
				os.Chtimes(filepath.Join(pc.Root, nodes2[i].P), mt, mt)
			}
		}
		second := &PkgCase{ID: pc.ID + 500000, Profile: pc.Profile + "-second-build", Cfg: &c2, Nodes: nodes2, Root: pc.Root, Formats: pc.Formats}
		runPkgCaseNoMaterialise(tr, second, scratch)
		return
	}
	os.RemoveAll(pc.Root)
}

// runPkgCaseNoMaterialise builds and decodes a case whose source tree is already on disk (the second build of a Rescript case).
func runPkgCaseNoMaterialise(tr *Trace, pc *PkgCase, scratch string) {
	keepTree = true
	runPkgCase(tr, pc, scratch)
}

// keepTree: set by the (sequentially run) second build of a Rescript case so that runPkgCase does not re-create the tree.
var keepTree bool

// ---------------------------------------------------------------- generators

func pick[T any](rng *rand.Rand, xs []T) T { return xs[rng.Intn(len(xs))] }

func maybe(rng *rand.Rand, p int, s string) string { // with probability p/10
	if rng.Intn(10) < p {
		return s
	}
	return ""
}

var (
	pkgNames    = []string{"foo", "my-app", "lib+x", "app.v2", "Tool_9"}
	goArches    = []string{"amd64", "386", "arm64", "arm5", "arm6", "arm7", "mips64le", "mipsle", "ppc64le", "s390", "all", "riscv64", "mips", "loong64"}
	maintainers = []string{"Jane Doe <jane@example.org>", "builds@corp.example", "Jürgen Müller <jm@example.de>", ""}
	descs       = []string{"A tool.", "Short synopsis\nLonger text line one.\nline two", "Synopsis\n\nParagraph after blank line.\n   \nafter blanks-only line",
		"Ünicode synopsis ✓\nsecond é line", "", "one line with  double  spaces"}
	vendors   = []string{"ACME Corp", "", "Véndor"}
	homepages = []string{"https://example.org/app", ""}
	licenses  = []string{"MIT", "Apache-2.0 OR GPL-2.0", ""}
	sections  = []string{"utils", "default", ""}
	prios     = []string{"extra", "optional", ""}
	relPool   = []string{"libc6", "bash", "foo-common", "bar >= 1.2", "baz = 2.0-1", "qux < 3", "lib-x", "zlib > 0.9", "openssl <= 3.0"}
)

func relList(rng *rand.Rand) []string {
	n := rng.Intn(5)
	if rng.Intn(3) == 0 {
		n = 0
	}
	perm := rng.Perm(len(relPool))
	var out []string
	for i := 0; i < n; i++ {
		out = append(out, relPool[perm[i]])
	}
	return out
}

var versionPool = []string{"1.2.3", "v1.2.3", "1.2", "2", "0.0.1", "10.20.30", "1.2.3-rc.1", "1.2.3+git.5", "1.2.3-beta-1+b.7", "v2.0.0-alpha", "1.0.0-0.3.7", "3.4.5-rc1+build.11"}

func genMeta(rng *rand.Rand, c *Cfg) {
	c.Name = pick(rng, pkgNames)
	c.Arch = pick(rng, goArches)
	c.Platform = "linux"
	c.Version = pick(rng, versionPool)
	if rng.Intn(6) == 0 {
		c.Schema = "none"
		c.Version = pick(rng, []string{"2024.01.02b", "1.2.3.4", "v1.2.3-rc1", "1.02.3"})
	}
	c.Epoch = pick(rng, []string{"", "", "1", "2", "10"})
	c.Release = pick(rng, []string{"", "1", "2", "3"})
	if rng.Intn(4) == 0 {
		c.Prerelease = pick(rng, []string{"beta1", "rc.2", "alpha-3"})
	}
	if rng.Intn(4) == 0 {
		c.Metadata = pick(rng, []string{"git.abc", "20240102", "b7"})
	}
	c.Section = pick(rng, sections)
	c.Priority = pick(rng, prios)
	c.Maintainer = pick(rng, maintainers)
	c.Description = pick(rng, descs)
	c.Vendor = pick(rng, vendors)
	c.Homepage = pick(rng, homepages)
	c.License = pick(rng, licenses)
	c.Depends, c.Recommends, c.Suggests = relList(rng), relList(rng), relList(rng)
	c.Conflicts, c.Replaces, c.Provides = relList(rng), relList(rng), relList(rng)
	c.RpmBuildHost = "buildhost.example"
	if rng.Intn(3) == 0 {
		c.DebBreaks = relList(rng)
		c.DebPredepends = relList(rng)
		c.IpkPredepends = relList(rng)
	}
	if rng.Intn(3) == 0 {
		c.DebFields = []KV2{{"Bugs", "https://bugs.example/x"}, {"Built-Using", "golang-1.23"}}[:1+rng.Intn(2)]
		c.IpkFields = []KV2{{"Source", "feeds/app"}, {"Require-User", "app=100:app=100"}}[:1+rng.Intn(2)]
	}
	if rng.Intn(4) == 0 {
		c.DebTriggers = [][]KV2{{{"interest", "trig-a"}}, {{"interest", "trig-a"}, {"interest", "trig-b"}}, {{"activate_noawait", "trig-c"}, {"interest_await", "trig-d"}},
			{{"activate", "trig-e"}}, {{"activate", "trig-e"}, {"activate_await", "trig-f"}, {"interest_noawait", "trig-g"}, {"interest", "trig-a"}}}[rng.Intn(5)]
	}
	if rng.Intn(3) == 0 {
		c.RpmGroup = pick(rng, []string{"Unspecified", "System/Tools"})
		c.RpmSummary = maybe(rng, 5, "An explicit summary")
		c.RpmPackager = maybe(rng, 5, "RPM Packager <rpm@example.org>")
		if rng.Intn(2) == 0 {
			c.RpmPrefixes = []string{"/opt", "/usr/local"}[:1+rng.Intn(2)]
		}
	}
	if rng.Intn(4) == 0 {
		c.ArchPkgbase = "base-" + c.Name
		c.ArchPackager = "Arch Packager <arch@example.org>"
	}
	if rng.Intn(4) == 0 {
		c.IpkABI = "2"
		c.IpkTags = []string{"tag-a", "tag-b"}[:1+rng.Intn(2)]
		c.IpkAlts = []Alt{{100, "/usr/bin/x1", "/usr/bin/x"}, {200, "/usr/bin/y1", "/usr/bin/y"}}[:1+rng.Intn(2)]
		c.IpkAuto = rng.Intn(2) == 0
		c.IpkEss = rng.Intn(2) == 0
	}
	if rng.Intn(5) == 0 {
		switch rng.Intn(5) {
		case 0:
			c.DebArch = "custom-deb"
		case 1:
			c.RpmArch = "custom_rpm"
		case 2:
			c.ApkArch = "custom-apk"
		case 3:
			c.ArchArch = "custom-arch"
		case 4:
			c.IpkArch = "custom-ipk"
		}
	}
	if rng.Intn(4) == 0 {
		c.Changelog = []ChEntry{{"1.2.3", 1500000000, "Jane Doe <jane@example.org>", []string{"note one", "note two"}}, {"1.2.2", 1400000000, "Jane Doe <jane@example.org>", []string{"older note"}}}[:1+rng.Intn(2)]
	}
	c.DebCompression = pick(rng, []string{"", "gzip", "xz", "zstd", "none"})
	c.RpmCompression = pick(rng, []string{"", "gzip", "gzip:9", "xz", "lzma", "zstd", "zstd:3", "gzip:1"})
}

var scriptShapes = [][]byte{
	[]byte("#!/bin/sh\necho hello\n"),
	[]byte("#!/bin/sh\necho no-trailing-newline"),
	[]byte("#!/bin/sh\r\necho crlf\r\n"),
	[]byte("#!/bin/sh\nif true; then { echo brace; }; fi\n}\n"),
	[]byte("#!/bin/sh\nprintf '%s %d 100%%\\n' x 1\n"),
	[]byte("#!/bin/sh\necho \xc3\xa9\xe2\x9c\x93 \xff\xfe\n"),
	[]byte("\xef\xbb\xbf#!/bin/sh\necho starts with a byte order mark\n"),
	[]byte("#!/bin/sh\n\x01binary\x7f tail\r"), // (no NUL byte: an rpm scriptlet is a C string)
	[]byte(""),
	[]byte("\n"),
}

// addScripts configures the given slots with distinct bytes; returns nodes.
func addScripts(rng *rand.Rand, c *Cfg, slots []string) []Node {
	var nodes []Node
	c.Scripts, c.ScriptCid, c.ScriptMt = map[string]string{}, map[string]string{}, map[string]int{}
	if len(slots) > 0 {
		nodes = append(nodes, Node{P: "scripts", Kind: "dir", Mode: 0o755, Mt: 1450000000})
	}
	for i, s := range slots {
		shape := scriptShapes[rng.Intn(len(scriptShapes))]
		body := append([]byte{}, shape...)
		if len(body) > 1 || rng.Intn(2) == 0 {
			// make the bytes distinct per slot so that cross-wiring changes a content id
			body = append(body, []byte(fmt.Sprintf("# slot %s %d", s, rng.Intn(1000)))...)
			if rng.Intn(2) == 0 {
				body = append(body, '\n')
			}
		}
		p := "scripts/" + strings.ReplaceAll(s, ".", "_") + ".sh"
		mt := 1440000000 + i*1000
		// the mode of a script file in the build tree is not part of the package: slots have the mode their package manager wants
		nodes = append(nodes, Node{P: p, Kind: "file", Mode: []int{0o755, 0o644, 0o600, 0o664, 0o700, 0o755}[rng.Intn(6)], Mt: mt, Size: len(body), data: body, Cid: cidOf(body)})
		c.Scripts[s] = p
		c.ScriptCid[s] = cidOf(body)
		c.ScriptMt[s] = mt
	}
	return nodes
}

// payloadEntries builds a non-colliding content list over the given tree.
func payloadEntries(rng *rand.Rand, nodes []Node, noglob bool, n int) []Entry {
	var filesN, dirsN []Node
	for _, nd := range nodes {
		if !strings.HasPrefix(nd.P, "src") {
			continue
		}
		switch nd.Kind {
		case "file":
			filesN = append(filesN, nd)
		case "dir":
			dirsN = append(dirsN, nd)
		}
	}
	tags := []string{"", "", "", "", "deb", "rpm", "apk", "archlinux", "ipk"}
	var es []Entry
	for i := 0; i < n; i++ {
		fi, has := randomFi(rng)
		base := fmt.Sprintf("%s/e%d", dstDirs[rng.Intn(len(dstDirs))], i)
		if rng.Intn(6) == 0 {
			base = strings.TrimPrefix(base, "/")
		}
		e := Entry{Tag: tags[rng.Intn(len(tags))], Fi: fi, HasFi: has}
		switch r := rng.Intn(22); {
		case r < 6:
			f := filesN[rng.Intn(len(filesN))]
			e.Type = []string{"file", "", "config", "config|noreplace", "config|missingok"}[rng.Intn(5)]
			e.Src = f.P
			e.Dst = base + "/" + filepath.Base(f.P)
			if rng.Intn(3) == 0 {
				e.Dst = base + "/"
			}
		case r < 9:
			d := dirsN[rng.Intn(len(dirsN))]
			e.Type = []string{"file", "config"}[rng.Intn(2)]
			e.Src = d.P
			e.Dst = base
		case r < 11 && !noglob:
			d := dirsN[rng.Intn(len(dirsN))]
			e.Type = []string{"file", "config|noreplace"}[rng.Intn(2)]
			e.Src = d.P + "/" + []string{"*", "*.txt", "*.conf", "a*", "*/*"}[rng.Intn(5)]
			e.Dst = base
		case r < 13:
			d := dirsN[rng.Intn(len(dirsN))]
			e.Type = "tree"
			e.Src = d.P
			e.Dst = base + "/tree"
		case r < 15:
			e.Type = "dir"
			e.Dst = base + "/dir"
		case r < 17:
			e.Type = "symlink"
			e.Src = []string{"/nonexistent/target", "relative/target", "../up", "/etc", "/etc/hostname"}[rng.Intn(5)]
			e.Dst = base + "/link"
		case r < 18:
			e.Type = "ghost"
			e.Dst = base + "/ghost"
		default:
			f := filesN[rng.Intn(len(filesN))]
			e.Type = []string{"doc", "licence", "license", "readme"}[rng.Intn(4)]
			e.Src = f.P
			e.Dst = base + "/" + e.Type + ".txt"
		}
		es = append(es, e)
	}
	return es
}

func subset(rng *rand.Rand, all []string) []string {
	var out []string
	for _, s := range all {
		if rng.Intn(2) == 0 {
			out = append(out, s)
		}
	}
	return out
}

func genPkgCase(rng *rand.Rand, id int, profile, scratch string, tier string) *PkgCase {
	c := &Cfg{}
	pc := &PkgCase{ID: id, Profile: profile, Cfg: c, Root: filepath.Join(scratch, fmt.Sprintf("pkg-%d", id)), Formats: allFormats}
	c.NoGlob = rng.Intn(6) == 0
	nodes := randomTree(rng, c.NoGlob)
	genMeta(rng, c)
	c.Umask = pick(rng, []int{0, 0o02, 0o22, 0o27, 0o77})
	c.Pmt = pick(rng, []int{0, 1600000000, 1234567890})
	switch profile {
	case "stamps":
		// C07: the package mtime is always fixed; scripts, changelog and per-entry mtimes provide other legitimate stamps
		c.Pmt = pick(rng, []int{1600000000, 1234567890, 0, 2100000000}) // (2100000000: a date the build clock has not reached)
		c.PmtZero = c.Pmt == 0
		c.Entries = payloadEntries(rng, nodes, c.NoGlob, 1+rng.Intn(7))
		nodes = append(nodes, addScripts(rng, c, subset(rng, scriptSlots))...)
		if rng.Intn(2) == 0 {
			c.Changelog = []ChEntry{{"1.2.3", 1500000000, "Jane Doe <jane@example.org>", []string{"note"}}}
		}
	case "payload":
		c.Entries = payloadEntries(rng, nodes, c.NoGlob, 1+rng.Intn(9))
		if rng.Intn(10) == 0 {
			c.Entries = nil // empty payload
		}
		nodes = append(nodes, addScripts(rng, c, subset(rng, scriptSlots[:4]))...)
	case "meta":
		c.Entries = payloadEntries(rng, nodes, c.NoGlob, rng.Intn(3))
		nodes = append(nodes, addScripts(rng, c, nil)...)
	case "scripts":
		c.Entries = payloadEntries(rng, nodes, c.NoGlob, rng.Intn(2))
		nodes = append(nodes, addScripts(rng, c, subset(rng, scriptSlots))...)
	case "overrides":
		// a generated configuration with override blocks for a random subset of the formats
		c.Entries = payloadEntries(rng, nodes, c.NoGlob, 1+rng.Intn(4))
		nodes = append(nodes, addScripts(rng, c, subset(rng, scriptSlots))...)
		hasDir := false
		for _, nd := range nodes {
			hasDir = hasDir || nd.P == "scripts"
		}
		if !hasDir {
			nodes = append(nodes, Node{P: "scripts", Kind: "dir", Mode: 0o755, Mt: 1450000000})
		}
		c.Ov = map[string]*OvCfg{}
		for _, f := range allFormats {
			if rng.Intn(3) == 0 {
				continue
			}
			o := &OvCfg{}
			c.Ov[f] = o
			if rng.Intn(2) == 0 {
				o.Depends = relList(rng)
			}
			if rng.Intn(3) == 0 {
				o.Recommends, o.Provides = relList(rng), relList(rng)
			}
			if rng.Intn(3) == 0 {
				o.Suggests, o.Conflicts, o.Replaces = relList(rng), relList(rng), relList(rng)
			}
			if rng.Intn(2) == 0 {
				o.Umask = pick(rng, []int{0o02, 0o22, 0o27, 0o77})
			}
			if rng.Intn(2) == 0 {
				nodes = append(nodes, ovScripts(c, f, subset(rng, commonSlots))...)
			}
		}
	}
	pc.Nodes = nodes
	return pc
}

func famPkg(tr *Trace, scratch string, seed int64, tier string, workers int, profile string) M {
	os.Unsetenv("SOURCE_DATE_EPOCH")
	rng := rand.New(rand.NewSource(seed*7919 + int64(len(profile))))
	n := map[string]int{"payload": 60, "meta": 60, "scripts": 40, "stamps": 50, "overrides": 40}[profile]
	if tier == "thorough" {
		n *= 15
	}
	n = envInt("VERIF_PKG_CASES", n)
	var cases []*PkgCase
	id := 0
	for i := 0; i < n; i++ {
		id++
		cases = append(cases, genPkgCase(rng, id, profile, scratch, tier))
	}
	if os.Getenv("VERIF_PKG_SYSTEMATIC") != "0" { // (the binding self-test works on a handful of generated cases only)
		cases = append(cases, systematicPkgCases(&id, profile, scratch, rng, tier)...)
	}
	var par, seq []*PkgCase
	for _, pc := range cases {
		if pc.Cfg.UseSDE || pc.Rescript {
			seq = append(seq, pc)
		} else {
			par = append(par, pc)
		}
	}
	parallel(len(par), workers, func(i int) { runPkgCase(tr, par[i], scratch) })
	for _, pc := range seq { // SOURCE_DATE_EPOCH is process-wide: these run alone
		runPkgCase(tr, pc, scratch)
	}
	return M{"cases": len(cases), "profile": profile, "packages": len(cases) * 5}
}
