package main

// Reflection over nfpm's configuration structs: the key paths of the YAML
// document (so that the exhaustive matrices of C13 / C16 / C17 follow the code
// under test), typed sample values, a document builder and a YAML emitter.

import (
	"encoding/json"
	"fmt"
	"os"
	"reflect"
	"sort"
	"strings"
	"time"

	"github.com/goreleaser/nfpm/v2"
)

// KeyPath is one leaf (or container) of the configuration document.
type KeyPath struct {
	Segs  []string     // yaml keys; "[]" marks "inside a list element", "<fmt>" the key of the overrides map
	Kind  string       // string | list | bool | int | mode | time | map | ptr | structlist | contents | struct
	Type  reflect.Type // Go type of the leaf
	Index [][]int      // reflect field indexes from nfpm.Config (per struct level)
}

func (k KeyPath) String() string { return strings.Join(k.Segs, ".") }

func yamlTag(f reflect.StructField, tagName string) (name string, inline, skip bool) {
	t := f.Tag.Get(tagName)
	parts := strings.Split(t, ",")
	name = parts[0]
	for _, p := range parts[1:] {
		if p == "inline" {
			inline = true
		}
	}
	if name == "-" {
		return "", false, true
	}
	if name == "" && !inline {
		name = strings.ToLower(f.Name)
	}
	return
}

var (
	tString   = reflect.TypeOf("")
	tTime     = reflect.TypeOf(time.Time{})
	tFileMode = reflect.TypeOf(os.FileMode(0))
)

func leafKind(t reflect.Type) string {
	switch {
	case t == tTime:
		return "time"
	case t == tFileMode:
		return "mode"
	case t.Kind() == reflect.String:
		return "string"
	case t.Kind() == reflect.Bool:
		return "bool"
	case t.Kind() == reflect.Int || t.Kind() == reflect.Int64 || t.Kind() == reflect.Uint32:
		return "int"
	case t.Kind() == reflect.Ptr && t.Elem().Kind() == reflect.String:
		return "ptr"
	case t.Kind() == reflect.Slice && t.Elem().Kind() == reflect.String:
		return "list"
	case t.Kind() == reflect.Map && t.Elem().Kind() == reflect.String:
		return "map"
	}
	return ""
}

// walkKeys enumerates all key paths under t with the given tag ("yaml" or "json").
func walkKeys(t reflect.Type, tagName string, prefix []string, out *[]KeyPath, depth int) {
	if depth > 12 {
		return
	}
	for i := 0; i < t.NumField(); i++ {
		f := t.Field(i)
		if f.PkgPath != "" { // unexported
			continue
		}
		name, inline, skip := yamlTag(f, tagName)
		if skip {
			continue
		}
		ft := f.Type
		if inline {
			if ft.Kind() == reflect.Map { // an inline map: ANY key is taken at this level (a key path of its own: "<any>")
				*out = append(*out, KeyPath{Segs: append(append([]string{}, prefix...), "<any>"), Kind: "string", Type: ft.Elem()})
				continue
			}
			if ft.Kind() == reflect.Ptr {
				ft = ft.Elem()
			}
			if ft.Kind() == reflect.Struct {
				walkKeys(ft, tagName, prefix, out, depth+1)
			}
			continue
		}
		segs := append(append([]string{}, prefix...), name)
		if k := leafKind(ft); k != "" {
			*out = append(*out, KeyPath{Segs: segs, Kind: k, Type: ft})
			continue
		}
		switch ft.Kind() {
		case reflect.Struct:
			*out = append(*out, KeyPath{Segs: segs, Kind: "struct", Type: ft})
			walkKeys(ft, tagName, segs, out, depth+1)
		case reflect.Slice:
			et := ft.Elem()
			if et.Kind() == reflect.Ptr {
				et = et.Elem()
			}
			if et.Kind() == reflect.Struct {
				kind := "structlist"
				if name == "contents" {
					kind = "contents"
				}
				*out = append(*out, KeyPath{Segs: segs, Kind: kind, Type: ft})
				walkKeys(et, tagName, append(segs, "[]"), out, depth+1)
			}
		case reflect.Ptr:
			if ft.Elem().Kind() == reflect.Struct {
				*out = append(*out, KeyPath{Segs: segs, Kind: "struct", Type: ft.Elem()})
				walkKeys(ft.Elem(), tagName, segs, out, depth+1)
			}
		case reflect.Map:
			et := ft.Elem()
			if et.Kind() == reflect.Ptr {
				et = et.Elem()
			}
			if et.Kind() == reflect.Struct { // overrides: map[format]*Overridables
				*out = append(*out, KeyPath{Segs: segs, Kind: "struct", Type: ft})
				walkKeys(et, tagName, append(segs, "<fmt>"), out, depth+1)
			}
		}
	}
}

func configKeyPaths(tagName string) []KeyPath {
	var out []KeyPath
	walkKeys(reflect.TypeOf(nfpm.Config{}), tagName, nil, &out, 0)
	return out
}

func overridableKeyPaths() []KeyPath {
	var out []KeyPath
	walkKeys(reflect.TypeOf(nfpm.Overridables{}), "yaml", nil, &out, 0)
	return out
}

// ---------------------------------------------------------------- documents

// setPath stores v in a nested document at the given segments; "[]" creates
// a one-element list whose element is a map seeded with elemSeed.
func setPath(doc map[string]any, segs []string, v any, fmtKey string) {
	cur := doc
	for i := 0; i < len(segs); i++ {
		s := segs[i]
		if s == "<fmt>" {
			s = fmtKey
		}
		last := i == len(segs)-1
		if !last && segs[i+1] == "[]" {
			// list of maps
			var lst []any
			if x, ok := cur[s].([]any); ok {
				lst = x
			}
			if len(lst) == 0 {
				lst = []any{map[string]any{}}
			}
			cur[s] = lst
			elem := lst[0].(map[string]any)
			if s == "contents" {
				if _, ok := elem["dst"]; !ok {
					elem["dst"] = "/usr/share/probe/file"
					elem["src"] = "/nonexistent/probe-src"
				}
			}
			cur = elem
			i++ // skip "[]"
			if i == len(segs)-1 {
				return
			}
			continue
		}
		if last {
			cur[s] = v
			return
		}
		nxt, ok := cur[s].(map[string]any)
		if !ok {
			nxt = map[string]any{}
			cur[s] = nxt
		}
		cur = nxt
	}
}

type rawYAML string // emitted verbatim (octal modes, timestamps)

func emitYAML(b *strings.Builder, v any, ind int, inList bool) {
	pad := strings.Repeat("  ", ind)
	switch x := v.(type) {
	case map[string]any:
		keys := make([]string, 0, len(x))
		for k := range x {
			keys = append(keys, k)
		}
		sort.Strings(keys)
		first := true
		for _, k := range keys {
			p := pad
			if inList && first {
				p = ""
			}
			first = false
			val := x[k]
			switch vv := val.(type) {
			case map[string]any:
				if len(vv) == 0 {
					fmt.Fprintf(b, "%s%s: {}\n", p, yq(k))
				} else {
					fmt.Fprintf(b, "%s%s:\n", p, yq(k))
					emitYAML(b, vv, ind+1, false)
				}
			case []any:
				if len(vv) == 0 {
					fmt.Fprintf(b, "%s%s: []\n", p, yq(k))
				} else {
					fmt.Fprintf(b, "%s%s:\n", p, yq(k))
					emitYAML(b, vv, ind+1, false)
				}
			default:
				fmt.Fprintf(b, "%s%s: %s\n", p, yq(k), scalarYAML(val))
			}
		}
	case []any:
		for _, e := range x {
			switch ee := e.(type) {
			case map[string]any:
				fmt.Fprintf(b, "%s- ", pad)
				emitYAML(b, ee, ind+1, true)
			default:
				fmt.Fprintf(b, "%s- %s\n", pad, scalarYAML(e))
			}
		}
	}
}

func scalarYAML(v any) string {
	switch x := v.(type) {
	case string:
		return yq(x)
	case rawYAML:
		return string(x)
	case bool:
		if x {
			return "true"
		}
		return "false"
	case int:
		return fmt.Sprint(x)
	case nil:
		return "null"
	}
	b, _ := json.Marshal(v)
	return string(b)
}

func docYAML(doc map[string]any) string {
	var b strings.Builder
	emitYAML(&b, doc, 0, false)
	return b.String()
}

func minimalDoc() map[string]any {
	return map[string]any{"name": "probe", "arch": "amd64", "version": "1.0.0", "version_schema": "none"}
}

// sampleValue: a type-correct document value for a leaf (variant 1, 2 give different values).
func sampleValue(k KeyPath, variant int) any {
	tag := fmt.Sprintf("%s-v%d", k.Segs[len(k.Segs)-1], variant)
	switch k.Kind {
	case "string", "ptr":
		return tag
	case "list":
		return []any{tag + "-a", tag + "-b"}
	case "bool":
		return true
	case "int":
		return 10 + variant
	case "mode":
		return rawYAML([]string{"0o22", "0o27", "0o77"}[variant%3])
	case "time":
		return rawYAML(time.Unix(int64(1500000000+variant*86400), 0).UTC().Format(time.RFC3339))
	case "map":
		return map[string]any{"Key-" + fmt.Sprint(variant): tag, "Shared": tag + "-shared"}
	case "structlist":
		return []any{map[string]any{"priority": 100 + variant, "target": "/t" + fmt.Sprint(variant), "link_name": "/l" + fmt.Sprint(variant)}}
	case "contents":
		return []any{map[string]any{"src": "/nonexistent/s" + fmt.Sprint(variant), "dst": "/usr/share/c" + fmt.Sprint(variant)}}
	}
	return tag
}

// ---------------------------------------------------------------- reading leaves back

// fieldByYAML descends v (struct) along yaml keys; returns the leaf value.
func fieldByYAML(v reflect.Value, segs []string) (reflect.Value, bool) {
	for len(segs) > 0 {
		for v.Kind() == reflect.Ptr {
			if v.IsNil() {
				return reflect.Value{}, false
			}
			v = v.Elem()
		}
		if segs[0] == "[]" {
			if v.Kind() != reflect.Slice || v.Len() == 0 {
				return reflect.Value{}, false
			}
			v = v.Index(0)
			segs = segs[1:]
			continue
		}
		if v.Kind() == reflect.Map {
			mv := v.MapIndex(reflect.ValueOf(segs[0]))
			if !mv.IsValid() {
				return reflect.Value{}, false
			}
			v = mv
			segs = segs[1:]
			continue
		}
		if v.Kind() != reflect.Struct {
			return reflect.Value{}, false
		}
		found := false
		var walk func(sv reflect.Value) bool
		walk = func(sv reflect.Value) bool {
			st := sv.Type()
			for i := 0; i < st.NumField(); i++ {
				f := st.Field(i)
				if f.PkgPath != "" {
					continue
				}
				name, inline, skip := yamlTag(f, "yaml")
				if skip {
					continue
				}
				if inline {
					if walk(sv.Field(i)) {
						return true
					}
					continue
				}
				if name == segs[0] {
					v = sv.Field(i)
					return true
				}
			}
			return false
		}
		found = walk(v)
		if !found {
			return reflect.Value{}, false
		}
		segs = segs[1:]
	}
	return v, true
}

// leafM renders a leaf value structurally for the trace:
// string -> string; list -> []string; bool; int; map -> sorted [{k,v}]; ptr -> string ("<nil>" when nil).
func leafM(v reflect.Value, kind string) any {
	if !v.IsValid() {
		return "<unset>"
	}
	switch kind {
	case "string":
		return safeStr(v.String())
	case "ptr":
		if v.IsNil() {
			return "<nil>"
		}
		return safeStr(v.Elem().String())
	case "list":
		out := make([]any, 0)
		for i := 0; i < v.Len(); i++ {
			out = append(out, safeStr(v.Index(i).String()))
		}
		return out
	case "bool":
		return v.Bool()
	case "int":
		return int(v.Int())
	case "mode":
		return int(v.Uint())
	case "time":
		t := v.Interface().(time.Time)
		return unixOrZero(t)
	case "map":
		keys := []string{}
		for _, k := range v.MapKeys() {
			keys = append(keys, k.String())
		}
		sort.Strings(keys)
		out := make([]M, 0)
		for _, k := range keys {
			out = append(out, M{"k": k, "v": safeStr(v.MapIndex(reflect.ValueOf(k)).String())})
		}
		return out
	case "structlist", "contents":
		out := make([]any, 0)
		for i := 0; i < v.Len(); i++ {
			e := v.Index(i)
			for e.Kind() == reflect.Ptr {
				e = e.Elem()
			}
			b, _ := json.Marshal(e.Interface())
			out = append(out, string(b))
		}
		return out
	}
	return "<?>"
}

// docValueM renders a document value (as built by sampleValue) in the same structural form.
func docValueM(v any, kind string) any {
	switch kind {
	case "string", "ptr":
		return v.(string)
	case "list":
		return v
	case "bool":
		return v.(bool)
	case "int":
		return v.(int)
	case "mode":
		var x int
		fmt.Sscanf(strings.TrimPrefix(string(v.(rawYAML)), "0o"), "%o", &x)
		return x
	case "time":
		t, _ := time.Parse(time.RFC3339, string(v.(rawYAML)))
		return int(t.Unix())
	case "map":
		m := v.(map[string]any)
		out := make([]M, 0)
		for _, k := range sortedKeys(m) {
			out = append(out, M{"k": k, "v": m[k].(string)})
		}
		return out
	}
	return "<?>"
}
