package main

// Key rotation (C10, Sig!KeyOfSignature): a signature is made with the key that is in the key file WHEN THE PACKAGE IS
// BUILT.  Within one process a package is signed with key A at path P, the file at P is replaced by key B and another
// package is signed, then the file is removed and a third signing is attempted.  The keys are generated here (go-crypto,
// crypto/rsa), so their ids are known independently of the code under test.

import (
	"bytes"
	crand "crypto/rand"
	"crypto/rsa"
	"crypto/sha1"
	"crypto/x509"
	"encoding/pem"
	"errors"
	"fmt"
	"os"
	"path/filepath"
	"strings"

	"crypto"

	"github.com/ProtonMail/go-crypto/openpgp"
	"github.com/ProtonMail/go-crypto/openpgp/armor"
	"github.com/ProtonMail/go-crypto/openpgp/clearsign"
	"github.com/ProtonMail/go-crypto/openpgp/packet"
	"github.com/goreleaser/nfpm/v2"
)

type rotKey struct {
	priv []byte   // what goes into the key file
	ids  []string // key ids of the OpenPGP entity (primary and subkeys); empty for rsa
	pub  *rsa.PublicKey
}

func newPGPKey(name string) rotKey {
	e, err := openpgp.NewEntity(name, "", name+"@example.org", &packet.Config{RSABits: 2048})
	must(err)
	var b bytes.Buffer
	w, err := armor.Encode(&b, openpgp.PrivateKeyType, nil)
	must(err)
	must(e.SerializePrivate(w, nil))
	must(w.Close())
	k := rotKey{priv: b.Bytes(), ids: []string{fmt.Sprintf("%016x", e.PrimaryKey.KeyId)}}
	for _, s := range e.Subkeys {
		k.ids = append(k.ids, fmt.Sprintf("%016x", s.PublicKey.KeyId))
	}
	return k
}

// newPGPKeyOfflinePrimary: the common "offline primary key" layout - the primary key only certifies, signing is delegated
// to a signing subkey.  ids holds the key ids that may sign (the signing subkey's only).
func newPGPKeyOfflinePrimary(name string) rotKey {
	cfg := &packet.Config{RSABits: 2048}
	e, err := openpgp.NewEntity(name, "", name+"@example.org", cfg)
	must(err)
	must(e.AddSigningSubkey(cfg))
	for _, id := range e.Identities {
		id.SelfSignature.FlagsValid, id.SelfSignature.FlagCertify, id.SelfSignature.FlagSign = true, true, false
	}
	var b bytes.Buffer
	w, err := armor.Encode(&b, openpgp.PrivateKeyType, nil)
	must(err)
	must(e.SerializePrivate(w, cfg)) // (re-signs the self-signatures: the flags above are what the key file says)
	must(w.Close())
	k := rotKey{priv: b.Bytes()}
	for _, s := range e.Subkeys {
		if s.Sig.FlagsValid && s.Sig.FlagSign {
			k.ids = append(k.ids, fmt.Sprintf("%016x", s.PublicKey.KeyId))
		}
	}
	return k
}

func newRSAKey() rotKey {
	k, err := rsa.GenerateKey(crand.Reader, 2048)
	must(err)
	return rotKey{priv: pem.EncodeToMemory(&pem.Block{Type: "RSA PRIVATE KEY", Bytes: x509.MarshalPKCS1PrivateKey(k)}), pub: &k.PublicKey}
}

// sigOf extracts from a signed package who signed it: the issuer key id (OpenPGP) or which of the given RSA keys verifies (apk).
func sigOf(f, method string, pkg []byte, keys []rotKey) string {
	switch f {
	case "deb":
		mem, err := parseAr(pkg)
		if err != nil || len(mem) < 4 {
			return "no-signature-member"
		}
		if method == "dpkg-sig" {
			blk, _ := clearsign.Decode(mem[3].Data)
			if blk == nil {
				return "not-clearsigned"
			}
			var body bytes.Buffer
			body.ReadFrom(blk.ArmoredSignature.Body)
			return issuerKeyID(body.Bytes())
		}
		return issuerKeyID(mem[3].Data)
	case "rpm":
		p, err := parseRpm(pkg)
		if err != nil {
			return "undecodable"
		}
		if s := p.Sig.bin(1002); s != nil {
			return issuerKeyID(s)
		}
		return "no-pgp-tag"
	case "apk":
		gz, err := splitGzip(pkg)
		if err != nil || len(gz) < 3 {
			return "no-signature-segment"
		}
		first, _ := readTar(bytes.NewReader(gz[0].Raw))
		if len(first) != 1 {
			return "no-signature-segment"
		}
		d := sha1.Sum(pkg[gz[1].Off:gz[1].End])
		for i, k := range keys {
			if rsa.VerifyPKCS1v15(k.pub, crypto.SHA1, d[:], first[0].Data) == nil {
				return fmt.Sprintf("key%d", i+1)
			}
		}
		return "verifies-with-neither"
	}
	return "?"
}

func famSignRotation(tr *Trace, id *int, scratch string) int {
	n := 0
	dir := filepath.Join(scratch, "rotation")
	must(os.MkdirAll(dir, 0o755))
	root := filepath.Join(dir, "src")
	Materialise(root, smallTree())
	// key files of other shapes than the repository's test keys: a valid signing key in them signs, and it is that key
	{
		rk := newRSAKey()
		rkey, _ := pem.Decode(rk.priv)
		_ = rkey
		pubDER, err := x509.MarshalPKIXPublicKey(rk.pub)
		must(err)
		pubPEM := pem.EncodeToMemory(&pem.Block{Type: "PUBLIC KEY", Bytes: pubDER})
		off := newPGPKeyOfflinePrimary("offline")
		shapes := []struct {
			f, method, shape string
			file             []byte
			keys             []rotKey
			want             []any
		}{
			{"apk", "", "private key followed by its public key", append(append([]byte{}, rk.priv...), pubPEM...), []rotKey{rk}, []any{"key1"}},
			{"apk", "", "private key after a comment line", append([]byte("# signing key of the build farm\n"), rk.priv...), []rotKey{rk}, []any{"key1"}},
			{"deb", "debsign", "certify-only primary key, signing subkey", off.priv, []rotKey{off}, strs(off.ids)},
			{"rpm", "", "certify-only primary key, signing subkey", off.priv, []rotKey{off}, strs(off.ids)},
		}
		// a requested key id whose last hexadecimal digit is zero (and one that starts with zeros, if the draw gives one)
		var zkey rotKey
		for try := 0; try < 400; try++ {
			k := newPGPKey("zero")
			if strings.HasSuffix(k.ids[0], "0") {
				zkey = k
				break
			}
		}
		type shapeT = struct {
			f, method, shape string
			file             []byte
			keys             []rotKey
			want             []any
		}
		if zkey.priv != nil {
			shapes = append(shapes, shapeT{"deb", "debsign", "key id ending in 0 requested:" + zkey.ids[0], zkey.priv, []rotKey{zkey}, []any{zkey.ids[0]}},
				shapeT{"rpm", "", "key id ending in 0 requested:" + zkey.ids[0], zkey.priv, []rotKey{zkey}, []any{zkey.ids[0]}},
				shapeT{"deb", "dpkg-sig", "key id ending in 0 requested:" + zkey.ids[0], zkey.priv, []rotKey{zkey}, []any{zkey.ids[0]}})
		}
		for _, sh := range shapes {
			kp := filepath.Join(dir, "shape-"+sh.f+sh.method+".key")
			must(os.WriteFile(kp, sh.file, 0o600))
			c := baseCfg("shapepkg")
			c.Entries = []Entry{{Type: "file", Src: "src/bin", Dst: "/usr/bin/tool"}}
			reqID := ""
			if i := strings.Index(sh.shape, "requested:"); i >= 0 {
				reqID = sh.shape[i+len("requested:"):]
			}
			switch sh.f {
			case "deb":
				c.DebSigKey, c.DebSigMethod, c.DebSigKeyID = kp, sh.method, reqID
			case "rpm":
				c.RpmSigKey, c.RpmSigKeyID = kp, reqID
			case "apk":
				c.ApkSigKey, c.ApkSigKeyName = kp, "shape"
			}
			ev := M{"ev": "keyshape", "fmt": sh.f, "method": sh.method, "shape": sh.shape, "may_sign": sh.want, "sig": "", "err": ""}
			cfg, err := parseCfg(c.YAML(root))
			if err == nil {
				var b []byte
				b, _, err = buildFormat(&cfg, sh.f)
				if err == nil {
					ev["sig"] = sigOf(sh.f, sh.method, b, sh.keys)
				}
			}
			if err != nil {
				ev["err"] = safeStr(strings.ReplaceAll(err.Error(), dir, "$DIR"))
			}
			*id++
			n++
			tr.Emit(*id, []M{{"ev": "case", "id": *id, "fam": "keyshape"}, ev, {"ev": "endcase"}})
		}
	}
	for _, v := range []struct{ f, method string }{{"deb", "debsign"}, {"deb", "dpkg-sig"}, {"rpm", ""}, {"apk", ""}} {
		var keys []rotKey
		if v.f == "apk" {
			keys = []rotKey{newRSAKey(), newRSAKey()}
		} else {
			keys = []rotKey{newPGPKey("first"), newPGPKey("second")}
		}
		kp := filepath.Join(dir, "signing-"+v.f+v.method+".key")
		c := baseCfg("rotpkg")
		c.Entries = []Entry{{Type: "file", Src: "src/bin", Dst: "/usr/bin/tool"}}
		switch v.f {
		case "deb":
			c.DebSigKey, c.DebSigMethod = kp, v.method
		case "rpm":
			c.RpmSigKey = kp
		case "apk":
			c.ApkSigKey, c.ApkSigKeyName = kp, "rot"
		}
		y := c.YAML(root)
		build := func() ([]byte, error) {
			cfg, err := parseCfg(y)
			if err != nil {
				return nil, err
			}
			b, _, err := buildFormat(&cfg, v.f)
			return b, err
		}
		want := func(k rotKey, i int) []any {
			if v.f == "apk" {
				return []any{fmt.Sprintf("key%d", i)}
			}
			return strs(k.ids)
		}
		ev := M{"ev": "rotation", "fmt": v.f, "method": v.method, "first_key": want(keys[0], 1), "second_key": want(keys[1], 2),
			"sig1": "", "sig2": "", "err1": "", "err2": "", "third_fails": false, "third_is_signing_failure": false}
		must(os.WriteFile(kp, keys[0].priv, 0o600))
		if b, err := build(); err != nil {
			ev["err1"] = safeStr(strings.ReplaceAll(err.Error(), dir, "$DIR"))
		} else {
			ev["sig1"] = sigOf(v.f, v.method, b, keys)
		}
		must(os.WriteFile(kp, keys[1].priv, 0o600)) // the key is rotated: same path, same (empty) passphrase, other key
		if b, err := build(); err != nil {
			ev["err2"] = safeStr(strings.ReplaceAll(err.Error(), dir, "$DIR"))
		} else {
			ev["sig2"] = sigOf(v.f, v.method, b, keys)
		}
		must(os.Remove(kp)) // the key file is gone: nothing can be signed
		_, err := build()
		var sf *nfpm.ErrSigningFailure
		ev["third_fails"] = err != nil
		ev["third_is_signing_failure"] = err != nil && errors.As(err, &sf)
		*id++
		n++
		tr.Emit(*id, []M{{"ev": "case", "id": *id, "fam": "rotation"}, ev, {"ev": "endcase"}})
	}
	return n
}
