package main

// Families "iso" (C11) and "conc" (C12): histories of validate / file-name /
// package operations on ONE parsed configuration, and concurrent packagings.
// After every operation the whole object graph reachable from the Config is
// snapshotted by reflection (every field, pointees, maps, slices), so that a
// new in-place write anywhere is seen without a hook.

import (
	"bytes"
	"crypto/sha256"
	"encoding/hex"
	"encoding/json"
	"fmt"
	"github.com/goreleaser/nfpm/v2/files"
	"math/rand"
	"os"
	"path/filepath"
	"reflect"
	"runtime"
	"sort"
	"strings"
	"sync"
	"time"

	"github.com/goreleaser/nfpm/v2"
)

// snapshot renders a canonical deep dump of v: path=value lines, sorted.
func snapshot(v any) map[string]string {
	out := map[string]string{}
	var walk func(p string, x reflect.Value, depth int)
	walk = func(p string, x reflect.Value, depth int) {
		if depth > 14 {
			return
		}
		switch x.Kind() {
		case reflect.Ptr, reflect.Interface:
			if x.IsNil() {
				out[p] = "<nil>"
				return
			}
			walk(p+"*", x.Elem(), depth+1)
		case reflect.Struct:
			if x.Type().String() == "time.Time" {
				out[p] = fmt.Sprint(x.Interface())
				return
			}
			for i := 0; i < x.NumField(); i++ {
				f := x.Type().Field(i)
				if f.PkgPath != "" {
					continue
				}
				walk(p+"."+f.Name, x.Field(i), depth+1)
			}
		case reflect.Slice:
			if x.IsNil() {
				out[p] = "<nilslice>"
				return
			}
			out[p+".len"] = fmt.Sprint(x.Len())
			for i := 0; i < x.Len(); i++ {
				walk(fmt.Sprintf("%s[%d]", p, i), x.Index(i), depth+1)
			}
		case reflect.Map:
			if x.IsNil() {
				out[p] = "<nilmap>"
				return
			}
			keys := x.MapKeys()
			sort.Slice(keys, func(i, j int) bool { return fmt.Sprint(keys[i]) < fmt.Sprint(keys[j]) })
			out[p+".len"] = fmt.Sprint(len(keys))
			for _, k := range keys {
				walk(fmt.Sprintf("%s[%v]", p, k), x.MapIndex(k), depth+1)
			}
		case reflect.Func:
			if x.IsNil() {
				out[p] = "<nilfunc>"
			} else {
				out[p] = "<func>"
			}
		default:
			out[p] = fmt.Sprint(x.Interface())
		}
	}
	walk("", reflect.ValueOf(v), 0)
	return out
}

func snapDiff(a, b map[string]string) []string {
	var out []string
	for k, v := range a {
		if w, ok := b[k]; !ok || w != v {
			out = append(out, k)
		}
	}
	for k := range b {
		if _, ok := a[k]; !ok {
			out = append(out, k)
		}
	}
	sort.Strings(out)
	return out
}

func snapHash(m map[string]string) string {
	keys := sortedKeys(m)
	h := sha256.New()
	for _, k := range keys {
		fmt.Fprintf(h, "%s=%s\n", k, m[k])
	}
	return hex.EncodeToString(h.Sum(nil))[:16]
}

func hashBytes(b []byte) string { s := sha256.Sum256(b); return hex.EncodeToString(s[:])[:24] }

// ---------------------------------------------------------------- shapes

type isoShape struct {
	signed bool // deb and rpm signatures carry their creation time: the bytes of those two are not comparable between builds
	name   string
	yaml   string
	root   string
	fresh  map[string]string // format -> hash of the package built from a fresh parse
	// values only a library caller can put into a configuration (the parser would tidy them away), set after every parse
	post func(c *nfpm.Config)
}

func (s *isoShape) parse() (nfpm.Config, error) {
	cfg, err := parseCfg(s.yaml)
	if err == nil && s.post != nil {
		s.post(&cfg)
	}
	return cfg, err
}

// isoShapes builds configurations that exercise every kind of shared object.
var isoWithSigned bool

func isoShapes(scratch string, rng *rand.Rand, n int) []*isoShape {
	var out []*isoShape
	mk := func(name string, mut func(c *Cfg, nodes *[]Node), extraYAML string) {
		c := baseCfg("isopkg")
		nodes := smallTree()
		c.Entries = []Entry{{Type: "file", Src: "src/bin", Dst: "/usr/bin/tool"}}
		mut(c, &nodes)
		root := filepath.Join(scratch, "iso-"+name)
		Materialise(root, nodes)
		if c.Changelog != nil {
			must(os.WriteFile(filepath.Join(root, "changelog.yaml"), []byte(c.ChangelogYAML()), 0o644))
		}
		out = append(out, &isoShape{name: name, yaml: c.YAML(root) + strings.ReplaceAll(extraYAML, "$ROOT", root), root: root})
	}
	withFi := Fi{Owner: "app", Group: "app"}
	mk("plain", func(c *Cfg, n *[]Node) {}, "")
	// relation lists as a program hands them over: blank items in the middle (a template that evaluated to nothing), spare
	// capacity - a packager that tidies them for its control file tidies a copy
	mk("library-relations", func(c *Cfg, n *[]Node) {
		c.Depends, c.Provides = []string{"a", "b >= 1"}, []string{"p1", "p2"}
	}, "")
	out[len(out)-1].post = func(c *nfpm.Config) {
		withBlanks := func(items ...string) []string { return append(make([]string, 0, len(items)+4), items...) }
		c.Provides = withBlanks("p1", " ", "p2", "p3", "", "p4")
		c.Depends = withBlanks("a", "", "b >= 1", "   ", "c")
		c.Replaces = withBlanks("", "r1", "r2")
		c.Conflicts = withBlanks("c1", "\t", "c2")
		c.Recommends = withBlanks("rec1", " ", "rec2")
		c.Suggests = withBlanks("s1", "", "s2")
		c.Deb.Predepends = withBlanks("pd", " ", "a")
		c.Deb.Breaks = withBlanks("", "br")
		c.IPK.Predepends = withBlanks("ipd", "")
	}
	// declared directories at paths the distribution's filesystem package owns, with attributes of their own; relations that
	// carry a multiarch qualifier; licence / readme / doc entries (each packager has its own idea about these: none of
	// them may write it into the configuration)
	mk("declared-dirs-at-system-paths", func(c *Cfg, n *[]Node) {
		c.Entries = append(c.Entries,
			Entry{Type: "dir", Dst: "/srv", Fi: Fi{Owner: "app", Group: "app", Mode: 0o750}, HasFi: true},
			Entry{Type: "dir", Dst: "/var/cache", Fi: Fi{Owner: "app", Group: "app", Mode: 0o770}, HasFi: true},
			Entry{Type: "dir", Dst: "/etc/sysconfig", Fi: Fi{Mode: 0o700}, HasFi: true},
			Entry{Type: "dir", Dst: "/opt", Fi: withFi, HasFi: true},
			Entry{Type: "file", Src: "src/app.conf", Dst: "/srv/isopkg/app.conf"},
			Entry{Type: "dir", Dst: "/usr/share/icons"})
	}, "")
	mk("qualified-relations", func(c *Cfg, n *[]Node) {
		c.Depends = []string{"python3:any (>= 3.8)", "libc6:native", "plain"}
		c.Recommends, c.Suggests = []string{"perl:any"}, []string{"make:native (>= 4)"}
		c.Conflicts, c.Replaces, c.Provides = []string{"old:any"}, []string{"older:any (<< 2)"}, []string{"virt:any"}
		c.DebPredepends, c.IpkPredepends, c.IpkTags = []string{"dpkg:native (>= 1.17)"}, []string{"opkg:any"}, []string{"tag:any"}
	}, "")
	mk("licence-and-doc-entries", func(c *Cfg, n *[]Node) {
		c.Entries = append(c.Entries,
			Entry{Type: "license", Src: "src/sub/data.txt", Dst: "/usr/share/licenses/isopkg/LICENSE"},
			Entry{Type: "licence", Src: "src/app.conf", Dst: "/usr/share/isopkg/COPYING", Fi: withFi, HasFi: true},
			Entry{Type: "readme", Src: "src/extra.conf", Dst: "/usr/share/doc/isopkg/README"},
			Entry{Type: "doc", Src: "src/sub/data.txt", Dst: "/usr/share/doc/isopkg/data.txt"},
			Entry{Type: "license", Src: "src/sub/data.txt", Dst: "/usr/share/licenses/isopkg/LICENSE.arch", Tag: "archlinux"},
			Entry{Type: "ghost", Dst: "/var/log/isopkg.log"})
	}, "")
	// the same relation several times in a list; an entry addressed to a name that is no packager's ("arch") next to an
	// override block of archlinux; an entry addressed to one packager at the destination of a generic one (that packager's
	// packaging is rejected - the others, before or after, are not touched by it)
	mk("repeated-relations", func(c *Cfg, n *[]Node) {
		c.Depends = []string{"a", "b >= 1", "a", "c", "b >= 1"}
		// (the package's own name among what it replaces / conflicts with; a trigger name under a directive and its noawait
		// twin; two alternatives for one link)
		c.Provides, c.Replaces, c.Conflicts = []string{"p", "p", "q"}, []string{"isopkg", "r2", "r1", "r2"}, []string{"isopkg", "x", "y", "x"}
		c.DebTriggers = []KV2{{"interest", "/usr/share/mime"}, {"interest", "/usr/share/icons"}, {"interest_noawait", "/usr/share/mime"}, {"activate", "ldconfig"}, {"activate_noawait", "ldconfig"}, {"activate", "other"}}
		c.IpkAlts = []Alt{{100, "/usr/bin/tool", "/usr/bin/editor"}, {50, "/usr/bin/tool", "/usr/bin/view"}, {10, "/usr/bin/tool-old", "/usr/bin/editor"}}
		c.Recommends, c.Suggests = []string{"m", "m"}, []string{"s", "t", "s"}
	}, "")
	mk("addressed-to-nobody", func(c *Cfg, n *[]Node) {
		c.Entries = append(c.Entries, Entry{Type: "file", Src: "src/app.conf", Dst: "/etc/isopkg/arch-only.conf", Tag: "arch"},
			Entry{Type: "file", Src: "src/extra.conf", Dst: "/etc/isopkg/pacman-only.conf", Tag: "pacman"},
			Entry{Type: "file", Src: "src/extra.conf", Dst: "/etc/isopkg/real-arch.conf", Tag: "archlinux"})
	}, "overrides:\n  archlinux:\n    depends:\n      - \"archdep\"\n  deb:\n    depends:\n      - \"debdep\"\n")
	mk("specific-over-generic", func(c *Cfg, n *[]Node) {
		c.Entries = append(c.Entries, Entry{Type: "file", Src: "src/app.conf", Dst: "/usr/share/doc/isopkg/README"},
			Entry{Type: "file", Src: "src/extra.conf", Dst: "/usr/share/doc/isopkg/README", Tag: "deb"},
			Entry{Type: "file", Src: "src/extra.conf", Dst: "/usr/share/doc/isopkg/NOTES"})
	}, "")
	mk("fileinfo-all-types", func(c *Cfg, n *[]Node) {
		c.Entries = append(c.Entries,
			Entry{Type: "dir", Dst: "/var/lib/isopkg", Fi: withFi, HasFi: true},
			Entry{Type: "symlink", Src: "/usr/bin/tool", Dst: "/usr/bin/tool-link", Fi: withFi, HasFi: true},
			Entry{Type: "ghost", Dst: "/var/log/isopkg.log", Fi: withFi, HasFi: true},
			Entry{Type: "doc", Src: "src/sub/data.txt", Dst: "/usr/share/doc/isopkg/data.txt", Fi: withFi, HasFi: true},
			Entry{Type: "config", Src: "src/app.conf", Dst: "/etc/isopkg/app.conf", Fi: withFi, HasFi: true},
			Entry{Type: "config|noreplace", Src: "src/extra.conf", Dst: "/etc/isopkg/keep.conf", Fi: withFi, HasFi: true},
			Entry{Type: "config|missingok", Src: "src/extra.conf", Dst: "/etc/isopkg/optional.conf"},
			Entry{Type: "file", Src: "src/sub", Dst: "/usr/share/isopkg", Fi: withFi, HasFi: true},
			Entry{Type: "tree", Src: "src/sub", Dst: "/usr/share/isopkg-tree", Fi: withFi, HasFi: true})
	}, "")
	mk("umask-override", func(c *Cfg, n *[]Node) {
		c.Entries = append(c.Entries, Entry{Type: "file", Src: "src/extra.conf", Dst: "/etc/isopkg/extra.conf", Fi: withFi, HasFi: true},
			Entry{Type: "dir", Dst: "/var/lib/isopkg", Fi: withFi, HasFi: true})
	}, "overrides:\n  rpm:\n    umask: 0o077\n  apk:\n    umask: 0o007\n")
	mk("relations-and-fields", func(c *Cfg, n *[]Node) {
		c.Depends, c.Provides, c.Replaces = []string{"a", "b >= 1"}, []string{"p1", " ", "p2"}, []string{"r"}
		c.DebFields = []KV2{{"Bugs", "x"}}
		c.IpkFields = []KV2{{"Source", "s"}, {"Maintainer", "reserved-name"}, {"Status", "reserved-too"}}
		c.IpkTags = []string{"t1"}
	}, "overrides:\n  deb:\n    depends:\n      - \"debdep\"\n    deb:\n      fields:\n        Extra: \"from-override\"\n  ipk:\n    ipk:\n      fields:\n        Extra2: \"from-override\"\n")
	mk("scripts-and-changelog", func(c *Cfg, n *[]Node) {
		*n = append(*n, addScripts(rng, c, scriptSlots)...)
		c.Changelog = []ChEntry{{"1.2.3", 1500000000, "Jane Doe <jane@example.org>", []string{"note"}}}
	}, "")
	mk("per-packager-contents", func(c *Cfg, n *[]Node) {
		c.Entries = []Entry{{Type: "file", Src: "src/app.conf", Dst: "/etc/isopkg/deb-only.conf", Tag: "deb"}, {Type: "file", Src: "src/bin", Dst: "/usr/bin/tool"},
			{Type: "file", Src: "src/extra.conf", Dst: "/etc/isopkg/rpm-only.conf", Tag: "rpm"}, {Type: "symlink", Src: "/usr/bin/tool", Dst: "/usr/bin/t2", Tag: "apk", Fi: withFi, HasFi: true}}
	}, "overrides:\n  rpm:\n    depends:\n      - \"rpmdep\"\n  archlinux:\n    scripts:\n      postinstall: \"$ROOT/src/bin\"\n")
	mk("key-ids", func(c *Cfg, n *[]Node) {
		c.DebSigKeyID, c.RpmSigKeyID = "base-deb-key", "base-rpm-key"
	}, "overrides:\n  rpm:\n    rpm:\n      signature:\n        key_id: \"override-rpm-key\"\n  deb:\n    deb:\n      signature:\n        key_id: \"override-deb-key\"\n")
	mk("compressors", func(c *Cfg, n *[]Node) {
		c.DebCompression, c.RpmCompression = "zstd", "zstd"
		c.Entries = append(c.Entries, Entry{Type: "file", Src: "src/sub", Dst: "/usr/share/isopkg"})
	}, "")
	mk("compressors-xz", func(c *Cfg, n *[]Node) { c.DebCompression, c.RpmCompression = "xz", "xz" }, "")
	mk("no-maintainer", func(c *Cfg, n *[]Node) { c.Maintainer = "" }, "")
	mk("duplicate-relations", func(c *Cfg, n *[]Node) {
		c.Depends = []string{"bash", "bash", "zlib", "zlib"}
		c.Provides, c.Conflicts, c.Replaces = []string{"p", "p"}, []string{"c", "c", "d"}, []string{"r", "r"}
		c.Recommends, c.Suggests = []string{"x", "x"}, []string{"s", "s", "s"}
	}, "")
	mk("one-format-fails", func(c *Cfg, n *[]Node) {
		// the glob collides with an entry addressed to rpm only: validate and package(rpm) fail, every other packaging must be unaffected
		c.Entries = []Entry{{Type: "file", Src: "src/sub/data.txt", Dst: "/opt/demo/data.txt", Tag: "rpm"}, {Type: "file", Src: "src/sub/*.txt", Dst: "/opt/demo"},
			{Type: "file", Src: "src/bin", Dst: "/usr/bin/tool"}}
	}, "")
	mk("arch-translation", func(c *Cfg, n *[]Node) { c.Arch = "arm6"; c.Release = "" }, "")
	mk("other-platform", func(c *Cfg, n *[]Node) { c.Platform, c.Arch = "freebsd", "arm64" }, "")
	// the same name in several relation lists (a package that provides, conflicts with and replaces its predecessor; a
	// dependency that is also a pre-dependency): whatever a packager dedupes, it dedupes in its own copy
	mk("relations-overlap", func(c *Cfg, n *[]Node) {
		c.Depends = []string{"bash", "adduser", "logrotate", "libold"}
		c.DebPredepends, c.IpkPredepends = []string{"adduser"}, []string{"bash"}
		c.Provides, c.Conflicts, c.Replaces = []string{"libold", "isopkg-compat"}, []string{"libold", "zz-other"}, []string{"libold"}
		c.Recommends, c.Suggests = []string{"logrotate", "cron"}, []string{"cron", "bash"}
		c.DebBreaks = []string{"libold (<< 2)"}
	}, "")
	// the generated Debian changelog and a shipped file at its path (deb refuses; nothing it did may be seen by the others)
	mk("changelog-clash", func(c *Cfg, n *[]Node) {
		c.Changelog = []ChEntry{{"1.2.3", 1500000000, "Jane Doe <jane@example.org>", []string{"note"}}}
		c.Entries = append(c.Entries, Entry{Type: "file", Src: "src/app.conf", Dst: "/usr/share/doc/isopkg/changelog.Debian.gz"})
	}, "")
	// lists that lost an item at parse time (a reference to a variable that is not set): their backing arrays have spare room
	mk("spare-capacity-lists", func(c *Cfg, n *[]Node) {
		c.Depends = []string{"${VERIF_UNSET_DEP}", "libfoo", "libbar", "${VERIF_UNSET_TOO}"}
		c.Provides, c.Conflicts = []string{"virt", "${VERIF_UNSET_DEP}"}, []string{"${VERIF_UNSET_DEP}", "old-one"}
		c.IpkPredepends, c.DebPredepends = []string{"busybox"}, []string{"dpkg"}
		c.Recommends = []string{"rec-a", "${VERIF_UNSET_DEP}", "rec-b"}
	}, "")
	// a directory entry whose file_info is complete (owner, group, mode, mtime): nothing is left to default
	mk("complete-fileinfo", func(c *Cfg, n *[]Node) {
		full := Fi{Owner: "app", Group: "grp", Mode: 0o750, Mt: 1300000000}
		c.Entries = append(c.Entries, Entry{Type: "dir", Dst: "/var/lib/isopkg/full", Fi: full, HasFi: true},
			Entry{Type: "file", Src: "src/app.conf", Dst: "/etc/isopkg/full.conf", Fi: full, HasFi: true},
			Entry{Type: "symlink", Src: "/etc/isopkg/full.conf", Dst: "/etc/isopkg/full.lnk", Fi: full, HasFi: true},
			Entry{Type: "ghost", Dst: "/var/log/isopkg-full.log", Fi: full, HasFi: true})
	}, "")
	// a payload file above every buffer / block threshold a packager may special-case (1 MiB and a bit)
	mk("large-file", func(c *Cfg, n *[]Node) {
		b := bytes.Repeat([]byte("0123456789abcdef0123456789ABCDEF0123456789abcdef0123456789ABCDE\n"), (1<<20)/64+3)
		*n = append(*n, Node{P: "src/large.bin", Kind: "file", Mode: 0o644, Mt: 1400000000, Size: len(b), data: b, Cid: cidOf(b)})
		c.Entries = append(c.Entries, Entry{Type: "file", Src: "src/large.bin", Dst: "/opt/isopkg/large.bin"},
			Entry{Type: "config", Src: "src/large.bin", Dst: "/etc/isopkg/large.conf"})
	}, "")
	// values a packager may want to tidy up (trailing slashes, doubled blanks, padding): whatever it does, it does to its own copy
	mk("denormalised-values", func(c *Cfg, n *[]Node) {
		c.RpmPrefixes = []string{"/opt/app/", "/usr//lib/", "/srv/"}
		c.Depends = []string{"libfoo  >=  1.2.0", "libbar >= 2", "plain"}
		c.Recommends, c.Suggests, c.Conflicts = []string{"rec  (>= 1)"}, []string{"sug: with  blanks"}, []string{"con <  3"}
		c.Description = "Synopsis with trailing blanks   \n  indented second line  \n\n"
		c.Homepage, c.Section, c.License = "https://example.org/isopkg/", "utils/", "MIT  "
		c.DebFields = []KV2{{"Bugs", "  https://bugs.example/  "}}
		c.IpkTags = []string{" padded-tag ", "tag2"}
		c.IpkFields = []KV2{{"Source", " s  "}}
		c.DebBreaks, c.DebPredepends, c.IpkPredepends = []string{"brk  (<< 2)"}, []string{"pre  (>= 1)"}, []string{"ipre  "}
		c.RpmGroup, c.RpmSummary = "Group/With/Slash/", "Summary with trailing blanks  "
		c.Entries = append(c.Entries, Entry{Type: "dir", Dst: "/var/lib/isopkg/"}, Entry{Type: "file", Src: "src/sub/", Dst: "/usr/share/isopkg//sub/"},
			Entry{Type: "symlink", Src: "/usr/bin/../bin/tool", Dst: "/usr/bin/./t3"})
	}, "")
	if isoWithSigned { // only the concurrent family: every format that can be signed is (key files of the repository's test data)
		td := repoDir + "/internal/sign/testdata/"
		mk("signed", func(c *Cfg, n *[]Node) {
			c.DebSigKey, c.RpmSigKey, c.ApkSigKey, c.ApkSigKeyName = td+"privkey_unprotected.asc", td+"privkey_unprotected.asc", td+"rsa_unprotected.priv", "origin"
		}, "")
		out[len(out)-1].signed = true
		n++
		mk("signed-dpkg-sig", func(c *Cfg, n *[]Node) {
			c.DebSigKey, c.DebSigMethod, c.RpmSigKey, c.RpmSigKeyID = td+"privkey_unprotected.asc", "dpkg-sig", td+"privkey_unprotected.asc", "bc8acdd415bd80b3"
			c.ApkSigKey, c.ApkSigKeyName = td+"rsa_unprotected.priv", "origin"
		}, "")
		out[len(out)-1].signed = true
		n++
	}
	for i := 0; len(out) < n; i++ {
		pc := genPkgCase(rng, 1000+i, "payload", scratch, "quick")
		pc.Cfg.Pmt = 1600000000
		Materialise(pc.Root, pc.Nodes)
		out = append(out, &isoShape{name: fmt.Sprintf("random-%d", i), yaml: pc.Cfg.YAML(pc.Root), root: pc.Root})
	}
	if len(out) > n {
		out = out[:n]
	}
	return out
}

func freshPackage(s *isoShape, f string) (string, string) {
	cfg, err := s.parse()
	if err != nil {
		return "", "parse: " + err.Error()
	}
	b, _, err := buildFormat(&cfg, f)
	if err != nil {
		return "", err.Error()
	}
	return hashBytes(b), ""
}

// ---------------------------------------------------------------- operations

type isoOp struct {
	Kind string // validate | filename | package | named
	Fmt  string
}

func (o isoOp) String() string {
	if o.Kind == "validate" {
		return "validate"
	}
	return o.Kind + "(" + o.Fmt + ")"
}

func allOps() []isoOp {
	ops := []isoOp{{"validate", ""}}
	for _, k := range []string{"filename", "package", "named"} {
		for _, f := range allFormats {
			ops = append(ops, isoOp{k, f})
		}
	}
	return ops
}

// applyOp performs one operation on the shared config; returns (package hash or "", file name, error text).
func applyOp(cfg *nfpm.Config, op isoOp) (string, string, string) {
	switch op.Kind {
	case "validate":
		if err := cfg.Validate(); err != nil {
			return "", "", err.Error()
		}
		return "", "", ""
	case "filename":
		info, err := cfg.Get(op.Fmt)
		if err != nil {
			return "", "", err.Error()
		}
		pk, _ := nfpm.Get(op.Fmt)
		return "", pk.ConventionalFileName(nfpm.WithDefaults(info)), ""
	case "package", "named":
		info, err := cfg.Get(op.Fmt)
		if err != nil {
			return "", "", err.Error()
		}
		info = nfpm.WithDefaults(info)
		pk, _ := nfpm.Get(op.Fmt)
		name := ""
		if op.Kind == "named" {
			name = pk.ConventionalFileName(info)
		}
		var buf bytes.Buffer
		if err := pk.Package(info, &buf); err != nil {
			return "", name, err.Error()
		}
		return hashBytes(buf.Bytes()), name, ""
	}
	return "", "", "unknown op"
}

func getSnapshots(cfg *nfpm.Config) map[string]string {
	out := map[string]string{}
	for _, f := range allFormats {
		info, err := cfg.Get(f)
		if err != nil {
			out[f] = "err:" + err.Error()
			continue
		}
		out[f] = snapHash(snapshot(info))
	}
	return out
}

func permutations(xs []string) [][]string {
	if len(xs) <= 1 {
		return [][]string{append([]string{}, xs...)}
	}
	var out [][]string
	for i := range xs {
		rest := append(append([]string{}, xs[:i]...), xs[i+1:]...)
		for _, p := range permutations(rest) {
			out = append(out, append([]string{xs[i]}, p...))
		}
	}
	return out
}

func famIso(tr *Trace, scratch string, seed int64, tier string, workers int, behaviours string) M {
	os.Unsetenv("SOURCE_DATE_EPOCH")
	rng := rand.New(rand.NewSource(seed + 99))
	nshapes := 28
	maxLen := 2
	if tier == "thorough" {
		nshapes, maxLen = 40, 3
	}
	shapes := isoShapes(scratch, rng, envInt("VERIF_ISO_SHAPES", nshapes))
	for _, s := range shapes {
		s.fresh = map[string]string{}
		for _, f := range allFormats {
			h, e := freshPackage(s, f)
			if e != "" {
				h = "err"
			}
			s.fresh[f] = h
		}
	}
	ops := allOps()
	var hist [][]isoOp
	var rec func(cur []isoOp)
	rec = func(cur []isoOp) {
		if len(cur) > 0 {
			hist = append(hist, append([]isoOp{}, cur...))
		}
		if len(cur) == maxLen {
			return
		}
		for _, o := range ops {
			rec(append(cur, o))
		}
	}
	rec(nil)
	for _, p := range permutations(allFormats) { // all 120 orders of the five packagings
		var h []isoOp
		for _, f := range p {
			h = append(h, isoOp{"package", f})
		}
		hist = append(hist, h)
	}
	nTLC := 0
	if behaviours != "" {
		// longer histories generated by TLC (Hist.tla, -simulate): one JSON array of operation names per line
		b, err := os.ReadFile(behaviours)
		must(err)
		for _, ln := range strings.Split(strings.TrimSpace(string(b)), "\n") {
			var names []string
			must(json.Unmarshal([]byte(ln), &names))
			var h []isoOp
			for _, nm := range names {
				if nm == "validate" {
					h = append(h, isoOp{"validate", ""})
					continue
				}
				i := strings.Index(nm, "(")
				h = append(h, isoOp{nm[:i], nm[i+1 : len(nm)-1]})
			}
			hist = append(hist, h)
			nTLC++
		}
	}
	type job struct {
		id int
		s  *isoShape
		h  []isoOp
	}
	var jobs []job
	id := 0
	for _, s := range shapes {
		for _, h := range hist {
			id++
			jobs = append(jobs, job{id, s, h})
		}
	}
	parallel(len(jobs), workers, func(i int) {
		j := jobs[i]
		cfg, err := j.s.parse()
		names := make([]any, 0)
		for _, o := range j.h {
			names = append(names, o.String())
		}
		evs := []M{{"ev": "case", "id": j.id, "fam": "iso", "shape": j.s.name, "history": names}}
		if err != nil {
			evs = append(evs, M{"ev": "isoparse", "err": safeStr(err.Error())}, M{"ev": "endcase"})
			tr.Emit(j.id, evs)
			return
		}
		snap0 := snapshot(&cfg)
		get0 := getSnapshots(&cfg)
		for k, o := range j.h {
			h, name, e := applyOp(&cfg, o)
			snap := snapshot(&cfg)
			diff := snapDiff(snap0, snap) // what THIS operation changed
			getN := getSnapshots(&cfg)
			var getDiff []any
			for _, f := range allFormats {
				if getN[f] != get0[f] {
					getDiff = append(getDiff, f)
				}
			}
			snap0, get0 = snap, getN
			if getDiff == nil {
				getDiff = []any{}
			}
			dl := make([]any, 0)
			for i, d := range diff {
				if i < 6 {
					dl = append(dl, d)
				}
			}
			fresh := ""
			if o.Fmt != "" {
				fresh = j.s.fresh[o.Fmt]
			}
			if e != "" && fresh == "err" {
				h = "err"
			}
			evs = append(evs, M{"ev": "op", "k": k + 1, "op": o.Kind, "fmt": o.Fmt, "hash": h, "fresh": fresh, "fname": safeStr(name), "err": safeStr(strings.ReplaceAll(e, j.s.root, "$ROOT")),
				"config_changed": dl, "nchanged": len(diff), "get_changed": getDiff})
		}
		evs = append(evs, M{"ev": "endcase"})
		tr.Emit(j.id, evs)
		if j.id%211 == 0 {
			tr.Index(j.id, M{"yaml": strings.ReplaceAll(j.s.yaml, j.s.root, "$ROOT")})
		}
	})
	// An Info a library caller built by hand (never passed through WithDefaults or a parser): asking for the conventional
	// file name first must not change the package built from it afterwards.
	nHand := 0
	{
		root := filepath.Join(scratch, "iso-handbuilt")
		Materialise(root, smallTree())
		mk := func(variant int) *nfpm.Info {
			i := &nfpm.Info{Name: "handbuilt", Arch: "amd64", Platform: "linux", Version: "v1.2.3-beta1+git5", Maintainer: "M <m@example.org>", Description: "d"}
			switch variant {
			case 1:
				i.Arch, i.Version, i.Release = "arm7", "2.0.0", "3"
			case 2:
				i.Arch, i.Version, i.Epoch, i.Prerelease = "386", "1.0", "2", "rc1"
			}
			i.MTime = time.Unix(1600000000, 0).UTC()
			i.RPM.BuildHost = "buildhost.example"
			i.Contents = files.Contents{{Source: root + "/src/bin", Destination: "/usr/bin/tool"}, {Source: root + "/src/app.conf", Destination: "/etc/handbuilt/app.conf", Type: "config"}}
			return i
		}
		id := len(jobs) + 500000
		for variant := 0; variant < 3; variant++ {
			for _, f := range allFormats {
				pk, _ := nfpm.Get(f)
				var a, b bytes.Buffer
				e1 := pk.Package(mk(variant), &a)
				named := mk(variant)
				name := pk.ConventionalFileName(named)
				e2 := pk.Package(named, &b)
				fresh, h := hashBytes(a.Bytes()), hashBytes(b.Bytes())
				if e1 != nil {
					fresh = "err"
				}
				if e2 != nil {
					h = "err"
				}
				id++
				nHand++
				tr.Emit(id, []M{{"ev": "case", "id": id, "fam": "iso", "shape": "handbuilt-info"},
					{"ev": "op", "k": 1, "op": "named", "fmt": f, "hash": h, "fresh": fresh, "fname": safeStr(name), "err": "", "config_changed": []any{}, "nchanged": 0, "get_changed": []any{}},
					{"ev": "endcase"}})
			}
		}
	}
	return M{"cases": len(jobs), "shapes": len(shapes), "histories_per_shape": len(hist), "max_len": maxLen, "tlc_generated_histories": nTLC, "handbuilt_infos": nHand}
}

// ---------------------------------------------------------------- concurrency (run under -race)

func famConc(tr *Trace, scratch string, seed int64, tier string) M {
	os.Unsetenv("SOURCE_DATE_EPOCH")
	rng := rand.New(rand.NewSource(seed + 7))
	nshapes, iters := 27, 12
	if tier == "thorough" {
		nshapes, iters = 27, 40
	}
	isoWithSigned = true
	shapes := isoShapes(scratch, rng, nshapes)
	isoWithSigned = false
	// the first set of every shape has every format twice: whatever a packager initialises or records on first use is
	// first used by several goroutines at once
	sets := [][]string{append(append([]string{}, allFormats...), allFormats...), {"deb", "deb"}, {"deb", "ipk"}, {"deb", "rpm"}, {"apk", "archlinux"},
		{"rpm", "apk", "ipk"}, {"rpm", "rpm", "archlinux"}}
	id := 0
	runs := 0
	// VERIF_CONC_SEQUENTIAL=1: the same rounds with the goroutines run one after the other - the control run that tells a
	// crash caused by concurrency from one the configuration causes on its own (bin/check c12)
	sequential := os.Getenv("VERIF_CONC_SEQUENTIAL") == "1"
	var panicMu sync.Mutex
	// Nothing is packaged sequentially before the first concurrent round: state that the code initialises lazily on first
	// use must be initialised race-free too.  Outputs are compared with the sequential builds made afterwards.
	type concRes struct {
		s      *isoShape
		set    []string
		mode   string
		outs   [][]string
		panics int
		first  string
	}
	var all []*concRes
	for _, s := range shapes {
		for _, set := range sets {
			for _, mode := range []string{"shared-config", "independent-configs"} {
				cr := &concRes{s: s, set: set, mode: mode}
				for _, procs := range []int{16, 4, 2, 1} {
					old := runtime.GOMAXPROCS(procs)
					nit := iters/4 + 1
					if s.name == "large-file" && tier != "thorough" { // costly under the race detector: one round per setting
						nit = 1
					}
					for it := 0; it < nit; it++ {
						var shared nfpm.Config
						if mode == "shared-config" {
							var err error
							shared, err = s.parse()
							if err != nil {
								continue
							}
						}
						var wg sync.WaitGroup
						start := make(chan struct{})
						res := make([]string, len(set))
						spins := make([]int, len(set))
						for gi := range set {
							spins[gi] = rng.Intn(3)
						}
						if sequential {
							close(start)
						}
						for gi, f := range set {
							wg.Add(1)
							go func(gi int, f string) {
								defer wg.Done()
								defer func() {
									if r := recover(); r != nil {
										res[gi] = "panic"
										panicMu.Lock()
										cr.panics++
										if cr.first == "" {
											cr.first = fmt.Sprint(r)
										}
										panicMu.Unlock()
									}
								}()
								cfgp := &shared
								if mode != "shared-config" {
									c2, err := s.parse()
									if err != nil {
										res[gi] = "err"
										return
									}
									cfgp = &c2
								}
								<-start
								for spin := 0; spin < spins[gi]; spin++ {
									runtime.Gosched()
								}
								b, _, err := buildFormat(cfgp, f)
								if err != nil {
									res[gi] = "err"
									return
								}
								res[gi] = hashBytes(b)
							}(gi, f)
							if sequential {
								wg.Wait()
							}
						}
						if !sequential {
							close(start)
						}
						wg.Wait()
						cr.outs = append(cr.outs, res)
						runs++
					}
					runtime.GOMAXPROCS(old)
				}
				all = append(all, cr)
			}
		}
	}
	// packages of DIFFERENT configurations built at the same time by one packager (independently parsed): whatever the
	// packager keeps between calls belongs to one call
	type mixedRes struct {
		f      string
		outs   [][]string
		panics int
		first  string
	}
	var mixedShapes []*isoShape
	for _, s := range shapes {
		if s.name != "large-file" && !s.signed {
			mixedShapes = append(mixedShapes, s)
		}
	}
	var mixed []*mixedRes
	for _, f := range allFormats {
		mr := &mixedRes{f: f}
		for _, procs := range []int{16, 4} {
			old := runtime.GOMAXPROCS(procs)
			for it := 0; it < 2; it++ {
				var wg sync.WaitGroup
				start := make(chan struct{})
				res := make([]string, len(mixedShapes))
				if sequential {
					close(start)
				}
				for gi, s := range mixedShapes {
					wg.Add(1)
					go func(gi int, s *isoShape) {
						defer wg.Done()
						defer func() {
							if r := recover(); r != nil {
								res[gi] = "panic"
								panicMu.Lock()
								mr.panics++
								if mr.first == "" {
									mr.first = fmt.Sprint(r)
								}
								panicMu.Unlock()
							}
						}()
						c2, err := s.parse()
						if err != nil {
							res[gi] = "err"
							return
						}
						<-start
						b, _, err := buildFormat(&c2, f)
						if err != nil {
							res[gi] = "err"
							return
						}
						res[gi] = hashBytes(b)
					}(gi, s)
					if sequential {
						wg.Wait()
					}
				}
				if !sequential {
					close(start)
				}
				wg.Wait()
				mr.outs = append(mr.outs, res)
				runs++
			}
			runtime.GOMAXPROCS(old)
		}
		mixed = append(mixed, mr)
	}
	seqOf := map[string]map[string]string{}
	for _, s := range shapes {
		seq := map[string]string{}
		for _, f := range allFormats {
			h, e := freshPackage(s, f)
			if e != "" {
				h = "err"
			}
			seq[f] = h
		}
		seqOf[s.name] = seq
	}
	for _, cr := range all {
		id++
		mismatches, total := 0, 0
		for _, res := range cr.outs {
			for gi, f := range cr.set {
				total++
				if cr.s.signed && (f == "deb" || f == "rpm") && res[gi] != "err" && res[gi] != "panic" {
					continue // an OpenPGP signature carries its creation time: built is all that can be said
				}
				if res[gi] != seqOf[cr.s.name][f] {
					mismatches++
				}
			}
		}
		fm := make([]any, 0)
		for _, f := range cr.set {
			fm = append(fm, f)
		}
		tr.Emit(id, []M{{"ev": "case", "id": id, "fam": "conc", "shape": cr.s.name},
			{"ev": "conc", "shape": cr.s.name, "mode": cr.mode, "formats": fm, "builds": total, "mismatches": mismatches,
				"panics": cr.panics, "first_panic": safeStr(firstN(cr.first, 300))}, {"ev": "endcase"}})
	}
	for _, mr := range mixed {
		id++
		mismatches, total := 0, 0
		for _, res := range mr.outs {
			for gi, s := range mixedShapes {
				total++
				if res[gi] != seqOf[s.name][mr.f] {
					mismatches++
				}
			}
		}
		tr.Emit(id, []M{{"ev": "case", "id": id, "fam": "conc", "shape": "mixed-shapes"},
			{"ev": "conc", "shape": "mixed-shapes", "mode": "independent-configs", "formats": []any{mr.f}, "builds": total, "mismatches": mismatches,
				"panics": mr.panics, "first_panic": safeStr(firstN(mr.first, 300))}, {"ev": "endcase"}})
	}
	return M{"cases": id, "concurrent_rounds": runs}
}
