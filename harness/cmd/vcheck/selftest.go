package main

// Decoder self-test (DESIGN.md 8.2): the independent decoders are run on
// archives NOT produced by nfpm (made with ar, tar, gzip, xz, dpkg-deb) before
// their verdicts about nfpm's packages are believed.

import (
	"bytes"
	"fmt"
	"os"
	"os/exec"
	"path/filepath"
	"strings"
)

func decoderSelfTest(scratch string) error {
	d := filepath.Join(scratch, "selftest")
	must(os.MkdirAll(filepath.Join(d, "tree/usr/bin"), 0o755))
	must(os.MkdirAll(filepath.Join(d, "tree/DEBIAN"), 0o755))
	must(os.WriteFile(filepath.Join(d, "tree/usr/bin/tool"), []byte("#!/bin/sh\necho x\n"), 0o755))
	must(os.WriteFile(filepath.Join(d, "tree/DEBIAN/control"), []byte("Package: foreign\nVersion: 1:2.3~rc1-4\nArchitecture: all\nMaintainer: T <t@example.org>\nDescription: synopsis\n line two\n .\n after blank\n"), 0o644))
	must(os.WriteFile(filepath.Join(d, "tree/DEBIAN/conffiles"), []byte("/usr/bin/tool\n"), 0o644))
	run := func(dir string, name string, args ...string) error {
		c := exec.Command(name, args...)
		c.Dir = dir
		if out, err := c.CombinedOutput(); err != nil {
			return fmt.Errorf("%s %v: %v: %s", name, args, err, out)
		}
		return nil
	}
	// ar with an odd-sized member
	must(os.WriteFile(filepath.Join(d, "odd"), []byte("abc"), 0o644))
	must(os.WriteFile(filepath.Join(d, "even"), []byte("abcd"), 0o644))
	if _, err := exec.LookPath("ar"); err == nil {
		if err := run(d, "ar", "rc", "x.a", "odd", "even"); err != nil {
			return err
		}
		b, _ := os.ReadFile(filepath.Join(d, "x.a"))
		mem, err := parseAr(b)
		if err != nil || len(mem) != 2 || mem[0].Name != "odd" || string(mem[0].Data) != "abc" || string(mem[1].Data) != "abcd" {
			return fmt.Errorf("ar decoder disagrees with ar(1): %v %+v", err, mem)
		}
	}
	// tar.gz / tar.xz made by tar(1)
	for _, v := range []struct{ flag, kind, name string }{{"-czf", "gzip", "t.tar.gz"}, {"-cJf", "xz", "t.tar.xz"}} {
		if err := run(d, "tar", v.flag, v.name, "-C", "tree", "usr"); err != nil {
			return err
		}
		b, _ := os.ReadFile(filepath.Join(d, v.name))
		if sniffCompression(b) != v.kind {
			return fmt.Errorf("sniffCompression(%s) = %s", v.name, sniffCompression(b))
		}
		raw, err := decompress(v.kind, b)
		if err != nil {
			return fmt.Errorf("%s: %w", v.name, err)
		}
		if !endsWithEOA(raw) {
			return fmt.Errorf("%s: end-of-archive marker not detected", v.name)
		}
		mem, err := readTar(bytes.NewReader(raw))
		if err != nil || len(mem) != 3 || mem[2].Name != "usr/bin/tool" || mem[2].Mode&0o777 != 0o755 || string(mem[2].Data) != "#!/bin/sh\necho x\n" {
			return fmt.Errorf("tar decoder disagrees with tar(1) on %s: %v %d members", v.name, err, len(mem))
		}
	}
	// a deb built by dpkg-deb itself
	if _, err := exec.LookPath("dpkg-deb"); err == nil {
		if err := run(d, "dpkg-deb", "--root-owner-group", "-Zxz", "--build", "tree", "foreign.deb"); err != nil {
			return err
		}
		b, _ := os.ReadFile(filepath.Join(d, "foreign.deb"))
		evs, err := emitDeb(b, d, 0)
		if err != nil {
			return fmt.Errorf("deb decoder fails on a dpkg-deb built package: %w", err)
		}
		want := map[string]string{"Package": "foreign", "Version": "1:2.3~rc1-4", "Description": "synopsis\nline two\n\nafter blank"}
		seen := 0
		conf, data := false, false
		for _, e := range evs {
			if e["ev"] == "meta" && e["in"] == "control" {
				if w, ok := want[e["key"].(string)]; ok {
					if e["values"].([]any)[0].(string) != w {
						return fmt.Errorf("control parser: %s = %q, want %q", e["key"], e["values"], w)
					}
					seen++
				}
			}
			if e["ev"] == "conf" && e["path"] == "/usr/bin/tool" {
				conf = true
			}
			if e["ev"] == "tar" && e["in"] == "data" && strings.HasSuffix(e["name"].(string), "usr/bin/tool") && e["mode"] == 0o755 {
				data = true
			}
		}
		if seen != len(want) || !conf || !data {
			return fmt.Errorf("deb decoder missed fields/members of a dpkg-deb built package (fields %d/%d conf %v data %v)", seen, len(want), conf, data)
		}
	}
	// rpm header / cpio parsers: round-trip of hand-built structures with known layout
	h := []byte{0x8e, 0xad, 0xe8, 0x01, 0, 0, 0, 0, 0, 0, 0, 2, 0, 0, 0, 12,
		0, 0, 0x03, 0xe8, 0, 0, 0, 6, 0, 0, 0, 0, 0, 0, 0, 1, // tag 1000 STRING off 0
		0, 0, 0x03, 0xf1, 0, 0, 0, 4, 0, 0, 0, 8, 0, 0, 0, 1, // tag 1009 INT32 off 8
		'n', 'a', 'm', 'e', 0, 0, 0, 0, 0, 0, 1, 0}
	rh, err := parseRpmHeader(h, 0)
	if err != nil {
		return err
	}
	if s, _ := rh.str(1000); s != "name" || rh.ints(1009)[0] != 256 {
		return fmt.Errorf("rpm header parser: %q %v", s, rh.ints(1009))
	}
	cp := []byte("070701" + "00000001" + "000081a4" + "00000000" + "00000000" + "00000001" + "00000010" + "00000003" +
		"00000000" + "00000000" + "00000000" + "00000000" + "00000004" + "00000000" + "./a\x00\x00\x00abc\x00" +
		"070701" + "00000000" + "00000000" + "00000000" + "00000000" + "00000001" + "00000000" + "00000000" +
		"00000000" + "00000000" + "00000000" + "00000000" + "0000000b" + "00000000" + "TRAILER!!!\x00\x00\x00\x00")
	ce, err := parseCpio(cp)
	if err != nil || len(ce) != 1 || ce[0].Name != "./a" || string(ce[0].Data) != "abc" || ce[0].Mode != 0o100644 || ce[0].Mtime != 16 {
		return fmt.Errorf("cpio parser: %v %+v", err, ce)
	}
	return nil
}
