package main

// Abstract configurations: the record shape spec/Config.tla and Layout.tla
// use.  The YAML handed to nfpm is rendered by the printer below (field names
// from the documentation, not from yaml.Marshal of nfpm's structs).

import (
	"encoding/json"
	"fmt"
	"os"
	"sort"
	"strings"
	"time"
)

type KV2 struct{ K, V string }

type Alt struct {
	Priority int
	Target   string
	LinkName string
}

type ChEntry struct {
	Semver   string
	Date     int
	Packager string
	Notes    []string
}

type Cfg struct {
	Name, Arch, Platform, Epoch, Version, Schema, Release, Prerelease, Metadata string
	Section, Priority, Maintainer, Description, Vendor, Homepage, License       string
	Depends, Recommends, Suggests, Conflicts, Replaces, Provides                []string
	Umask                                                                       int
	Pmt                                                                         int  // package mtime (epoch), 0 = not configured
	PmtZero                                                                     bool // the package mtime is configured as the epoch itself
	UseSDE                                                                      bool // configured through SOURCE_DATE_EPOCH instead of mtime:
	NoGlob                                                                      bool
	Scripts                                                                     map[string]string // slot -> path relative to the source root
	ScriptCid                                                                   map[string]string // slot -> content id of the script bytes
	ScriptMt                                                                    map[string]int

	DebArch, DebCompression  string
	DebBreaks, DebPredepends []string
	DebFields                []KV2
	DebTriggers              []KV2 // directive (yaml key) -> name, in order

	RpmArch, RpmCompression, RpmGroup, RpmSummary, RpmPackager, RpmBuildHost string
	RpmPrefixes                                                              []string

	ApkArch string

	ArchArch, ArchPkgbase, ArchPackager string

	IpkArch, IpkABI string
	IpkAlts         []Alt
	IpkAuto, IpkEss bool
	IpkPredepends   []string
	IpkTags         []string
	IpkFields       []KV2

	Changelog []ChEntry // nil = none

	// signing (absolute key-file paths; "" = not configured)
	DebSigKey, DebSigKeyID, DebSigMethod, DebSigType, DebSigSigner string
	RpmSigKey, RpmSigKeyID                                         string
	ApkSigKey, ApkSigKeyName                                       string

	Entries []Entry

	// per-format override blocks (nil = none): the overridable fields the generators use
	Ov map[string]*OvCfg
}

// OvCfg is one `overrides.<format>` block: relation lists (wholesale when non-empty), umask (when non-zero) and the four common
// scripts (field by field).
type OvCfg struct {
	Depends, Recommends, Suggests, Conflicts, Replaces, Provides []string
	Umask                                                        int
	Scripts                                                      map[string]string // common slot -> path relative to the source root
	ScriptCid                                                    map[string]string
	ScriptMt                                                     map[string]int
	// NestedArch: `overrides.<format>.<format>.arch` - the format's own architecture spelling, set in its override block only
	// (not part of the abstract configuration the layout clauses read: used where a run is compared with the library's build)
	NestedArch string
}

var commonSlots = []string{"preinstall", "postinstall", "preremove", "postremove"}

func (c *Cfg) ovM() M {
	out := M{}
	for _, f := range allFormats {
		o := c.Ov[f]
		if o == nil {
			o = &OvCfg{}
		}
		sc, scm := M{}, M{}
		for _, s := range commonSlots {
			sc[s] = o.ScriptCid[s]
			scm[s] = o.ScriptMt[s]
		}
		out[f] = M{"block": c.Ov[f] != nil, "depends": strs(o.Depends), "recommends": strs(o.Recommends), "suggests": strs(o.Suggests), "conflicts": strs(o.Conflicts),
			"replaces": strs(o.Replaces), "provides": strs(o.Provides), "umask": o.Umask, "scripts": sc, "script_mt": scm}
	}
	return out
}

var scriptSlots = []string{"preinstall", "postinstall", "preremove", "postremove",
	"deb.rules", "deb.templates", "deb.config", "rpm.pretrans", "rpm.posttrans", "rpm.verify",
	"apk.preupgrade", "apk.postupgrade", "archlinux.preupgrade", "archlinux.postupgrade"}

func strs(a []string) []any {
	out := make([]any, 0, len(a))
	for _, s := range a {
		out = append(out, s)
	}
	return out
}

func kvs(a []KV2) []M {
	out := make([]M, 0, len(a))
	for _, x := range a {
		out = append(out, M{"k": x.K, "v": x.V})
	}
	return out
}

// M renders the abstract configuration for the trace (always the full key set).
func (c *Cfg) M() M {
	sc := M{}
	for _, s := range scriptSlots {
		sc[s] = c.ScriptCid[s] // "" = not configured
	}
	scm := M{}
	for _, s := range scriptSlots {
		scm[s] = c.ScriptMt[s]
	}
	alts := make([]M, 0)
	for _, a := range c.IpkAlts {
		alts = append(alts, M{"priority": a.Priority, "target": a.Target, "link_name": a.LinkName})
	}
	ch := make([]M, 0)
	for _, e := range c.Changelog {
		ch = append(ch, M{"semver": e.Semver, "date": e.Date, "packager": e.Packager, "notes": strs(e.Notes)})
	}
	return M{
		"name": c.Name, "arch": c.Arch, "platform": c.Platform, "epoch": c.Epoch, "version": c.Version,
		"schema": c.Schema, "release": c.Release, "prerelease": c.Prerelease, "metadata": c.Metadata,
		"section": c.Section, "priority": c.Priority, "maintainer": c.Maintainer, "description": c.Description,
		"vendor": c.Vendor, "homepage": c.Homepage, "license": c.License,
		"depends": strs(c.Depends), "recommends": strs(c.Recommends), "suggests": strs(c.Suggests),
		"conflicts": strs(c.Conflicts), "replaces": strs(c.Replaces), "provides": strs(c.Provides),
		"umask": c.Umask, "pmt": c.Pmt, "pmtset": c.Pmt != 0 || c.PmtZero, "noglob": c.NoGlob, "scripts": sc, "script_mt": scm,
		"deb":       M{"arch": c.DebArch, "compression": c.DebCompression, "breaks": strs(c.DebBreaks), "predepends": strs(c.DebPredepends), "fields": kvs(c.DebFields), "triggers": kvs(c.DebTriggers)},
		"rpm":       M{"arch": c.RpmArch, "compression": c.RpmCompression, "group": c.RpmGroup, "summary": c.RpmSummary, "packager": c.RpmPackager, "buildhost": c.RpmBuildHost, "hostname": hostName(), "prefixes": strs(c.RpmPrefixes)},
		"apk":       M{"arch": c.ApkArch},
		"archlinux": M{"arch": c.ArchArch, "pkgbase": c.ArchPkgbase, "packager": c.ArchPackager},
		"ipk": M{"arch": c.IpkArch, "abi_version": c.IpkABI, "alternatives": alts, "auto_installed": c.IpkAuto, "essential": c.IpkEss,
			"predepends": strs(c.IpkPredepends), "tags": strs(c.IpkTags), "fields": kvs(c.IpkFields)},
		"changelog": ch, "has_changelog": c.Changelog != nil,
		"sig": M{"deb_key": c.DebSigKey != "", "deb_key_id": c.DebSigKeyID, "deb_method": c.DebSigMethod, "deb_type": c.DebSigType, "deb_signer": c.DebSigSigner,
			"rpm_key": c.RpmSigKey != "", "rpm_key_id": c.RpmSigKeyID, "apk_key": c.ApkSigKey != "", "apk_key_name": c.ApkSigKeyName},
		"entries": entriesM(c.Entries),
		"ov":      c.ovM(),
	}
}

// ---------------------------------------------------------------- YAML printer

type yw struct {
	b   strings.Builder
	ind int
}

func yq(s string) string { // a JSON string is a valid YAML double-quoted scalar
	b, _ := json.Marshal(s)
	return string(b)
}

func (w *yw) line(format string, a ...any) {
	w.b.WriteString(strings.Repeat("  ", w.ind))
	fmt.Fprintf(&w.b, format, a...)
	w.b.WriteByte('\n')
}

func (w *yw) str(k, v string) {
	if v != "" {
		w.line("%s: %s", k, yq(v))
	}
}

func (w *yw) list(k string, v []string) {
	if len(v) == 0 {
		return
	}
	w.line("%s:", k)
	for _, s := range v {
		w.line("  - %s", yq(s))
	}
}

func (w *yw) open(k string) { w.line("%s:", k); w.ind++ }
func (w *yw) close()        { w.ind-- }

func renderEntries(w *yw, key, root string, es []Entry) {
	if len(es) == 0 {
		return
	}
	w.line("%s:", key)
	for _, e := range es {
		src := e.Src
		if src != "" && srcIsPath(e.Type) && !e.Abs {
			src = root + "/" + e.Src
		}
		first := true
		item := func(format string, a ...any) {
			p := "    "
			if first {
				p = "  - "
				first = false
			}
			w.line(p+format, a...)
		}
		if src != "" {
			item("src: %s", yq(src))
		}
		item("dst: %s", yq(e.Dst))
		if e.Type != "" {
			item("type: %s", yq(e.Type))
		}
		if e.Tag != "" {
			item("packager: %s", yq(e.Tag))
		}
		if e.Expand {
			item("expand: true")
		}
		if e.HasFi || e.Fi != (Fi{}) {
			item("file_info:")
			if e.Fi.Owner != "" {
				w.line("      owner: %s", yq(e.Fi.Owner))
			}
			if e.Fi.Group != "" {
				w.line("      group: %s", yq(e.Fi.Group))
			}
			if e.Fi.Mode != 0 {
				w.line("      mode: 0%o", e.Fi.Mode)
			}
			if e.Fi.Mt != 0 {
				w.line("      mtime: %s", time.Unix(int64(e.Fi.Mt), 0).UTC().Format(time.RFC3339))
			}
			if e.Fi == (Fi{}) {
				w.line("      owner: \"\"")
			}
		}
	}
}

// scriptBlock renders a scripts: block from slot names with the given prefix.
func (c *Cfg) scriptBlock(w *yw, root, prefix string, names []string) {
	any := false
	for _, n := range names {
		if c.Scripts[prefix+n] != "" {
			any = true
		}
	}
	if !any {
		return
	}
	w.open("scripts")
	for _, n := range names {
		if p := c.Scripts[prefix+n]; p != "" {
			w.line("%s: %s", n, yq(root+"/"+p))
		}
	}
	w.close()
}

func groupKV(a []KV2) (keys []string, m map[string][]string) {
	m = map[string][]string{}
	for _, x := range a {
		if _, ok := m[x.K]; !ok {
			keys = append(keys, x.K)
		}
		m[x.K] = append(m[x.K], x.V)
	}
	return
}

// YAML renders the configuration; root is the absolute source root.
func (c *Cfg) YAML(root string) string {
	w := &yw{}
	w.str("name", c.Name)
	w.str("arch", c.Arch)
	w.str("platform", c.Platform)
	w.str("epoch", c.Epoch)
	w.str("version", c.Version)
	w.str("version_schema", c.Schema)
	w.str("release", c.Release)
	w.str("prerelease", c.Prerelease)
	w.str("version_metadata", c.Metadata)
	w.str("section", c.Section)
	w.str("priority", c.Priority)
	w.str("maintainer", c.Maintainer)
	w.str("description", c.Description)
	w.str("vendor", c.Vendor)
	w.str("homepage", c.Homepage)
	w.str("license", c.License)
	if c.Changelog != nil {
		w.str("changelog", root+"/changelog.yaml")
	}
	if c.NoGlob {
		w.line("disable_globbing: true")
	}
	if c.Umask != 0 {
		w.line("umask: 0o%o", c.Umask)
	}
	if (c.Pmt != 0 || c.PmtZero) && !c.UseSDE {
		w.line("mtime: %s", time.Unix(int64(c.Pmt), 0).UTC().Format(time.RFC3339))
	}
	w.list("depends", c.Depends)
	w.list("recommends", c.Recommends)
	w.list("suggests", c.Suggests)
	w.list("conflicts", c.Conflicts)
	w.list("replaces", c.Replaces)
	w.list("provides", c.Provides)
	renderEntries(w, "contents", root, c.Entries)
	c.scriptBlock(w, root, "", []string{"preinstall", "postinstall", "preremove", "postremove"})

	// deb
	{
		sub := &yw{ind: 1}
		sub.str("arch", c.DebArch)
		sub.str("compression", c.DebCompression)
		sub.list("breaks", c.DebBreaks)
		sub.list("predepends", c.DebPredepends)
		if len(c.DebFields) > 0 {
			sub.open("fields")
			for _, f := range c.DebFields {
				sub.line("%s: %s", yq(f.K), yq(f.V))
			}
			sub.close()
		}
		if len(c.DebTriggers) > 0 {
			sub.open("triggers")
			keys, m := groupKV(c.DebTriggers)
			for _, k := range keys {
				sub.list(k, m[k])
			}
			sub.close()
		}
		c.scriptBlock(sub, root, "deb.", []string{"rules", "templates", "config"})
		if c.DebSigKey != "" || c.DebSigType != "" || c.DebSigMethod != "" || c.DebSigKeyID != "" {
			sub.open("signature")
			sub.str("key_file", c.DebSigKey)
			sub.str("key_id", c.DebSigKeyID)
			sub.str("method", c.DebSigMethod)
			sub.str("type", c.DebSigType)
			sub.str("signer", c.DebSigSigner)
			sub.close()
		}
		if sub.b.Len() > 0 {
			w.line("deb:")
			w.b.WriteString(sub.b.String())
		}
	}
	// rpm
	{
		sub := &yw{ind: 1}
		sub.str("arch", c.RpmArch)
		sub.str("compression", c.RpmCompression)
		sub.str("group", c.RpmGroup)
		sub.str("summary", c.RpmSummary)
		sub.str("packager", c.RpmPackager)
		sub.str("buildhost", c.RpmBuildHost)
		sub.list("prefixes", c.RpmPrefixes)
		c.scriptBlock(sub, root, "rpm.", []string{"pretrans", "posttrans", "verify"})
		if c.RpmSigKey != "" || c.RpmSigKeyID != "" {
			sub.open("signature")
			sub.str("key_file", c.RpmSigKey)
			sub.str("key_id", c.RpmSigKeyID)
			sub.close()
		}
		if sub.b.Len() > 0 {
			w.line("rpm:")
			w.b.WriteString(sub.b.String())
		}
	}
	// apk
	{
		sub := &yw{ind: 1}
		sub.str("arch", c.ApkArch)
		c.scriptBlock(sub, root, "apk.", []string{"preupgrade", "postupgrade"})
		if c.ApkSigKey != "" || c.ApkSigKeyName != "" {
			sub.open("signature")
			sub.str("key_file", c.ApkSigKey)
			sub.str("key_name", c.ApkSigKeyName)
			sub.close()
		}
		if sub.b.Len() > 0 {
			w.line("apk:")
			w.b.WriteString(sub.b.String())
		}
	}
	// archlinux
	{
		sub := &yw{ind: 1}
		sub.str("arch", c.ArchArch)
		sub.str("pkgbase", c.ArchPkgbase)
		sub.str("packager", c.ArchPackager)
		c.scriptBlock(sub, root, "archlinux.", []string{"preupgrade", "postupgrade"})
		if sub.b.Len() > 0 {
			w.line("archlinux:")
			w.b.WriteString(sub.b.String())
		}
	}
	// ipk
	{
		sub := &yw{ind: 1}
		sub.str("arch", c.IpkArch)
		sub.str("abi_version", c.IpkABI)
		if len(c.IpkAlts) > 0 {
			sub.line("alternatives:")
			for _, a := range c.IpkAlts {
				sub.line("  - priority: %d", a.Priority)
				sub.line("    target: %s", yq(a.Target))
				sub.line("    link_name: %s", yq(a.LinkName))
			}
		}
		if c.IpkAuto {
			sub.line("auto_installed: true")
		}
		if c.IpkEss {
			sub.line("essential: true")
		}
		sub.list("predepends", c.IpkPredepends)
		sub.list("tags", c.IpkTags)
		if len(c.IpkFields) > 0 {
			sub.open("fields")
			for _, f := range c.IpkFields {
				sub.line("%s: %s", yq(f.K), yq(f.V))
			}
			sub.close()
		}
		if sub.b.Len() > 0 {
			w.line("ipk:")
			w.b.WriteString(sub.b.String())
		}
	}
	if len(c.Ov) > 0 {
		w.open("overrides")
		for _, f := range allFormats {
			o := c.Ov[f]
			if o == nil {
				continue
			}
			w.open(f)
			n := w.b.Len()
			w.list("depends", o.Depends)
			w.list("recommends", o.Recommends)
			w.list("suggests", o.Suggests)
			w.list("conflicts", o.Conflicts)
			w.list("replaces", o.Replaces)
			w.list("provides", o.Provides)
			if o.Umask != 0 {
				w.line("umask: 0o%o", o.Umask)
			}
			any := false
			for _, sl := range commonSlots {
				any = any || o.Scripts[sl] != ""
			}
			if any {
				w.open("scripts")
				for _, sl := range commonSlots {
					if p := o.Scripts[sl]; p != "" {
						w.line("%s: %s", sl, yq(root+"/"+p))
					}
				}
				w.close()
			}
			if o.NestedArch != "" {
				w.open(f)
				w.line("arch: %s", yq(o.NestedArch))
				w.close()
			}
			if w.b.Len() == n { // a block that sets nothing overridable here: still a block
				w.line("depends: []")
			}
			w.close()
		}
		w.close()
	}
	return w.b.String()
}

// ChangelogYAML renders a chglog file.
func (c *Cfg) ChangelogYAML() string {
	var b strings.Builder
	if len(c.Changelog) == 0 {
		return "[]\n" // a changelog file without entries
	}
	for _, e := range c.Changelog {
		if e.Date == 0 { // an undated entry
			fmt.Fprintf(&b, "- semver: %s\n  packager: %s\n  changes:\n", e.Semver, yq(e.Packager))
		} else {
			fmt.Fprintf(&b, "- semver: %s\n  date: %s\n  packager: %s\n  changes:\n", e.Semver,
				time.Unix(int64(e.Date), 0).UTC().Format(time.RFC3339), yq(e.Packager))
		}
		for i, n := range e.Notes {
			fmt.Fprintf(&b, "    - commit: %040x\n      note: %s\n", i+1, yq(n))
		}
	}
	return b.String()
}

func sortedSlots(m map[string]string) []string {
	var ks []string
	for k, v := range m {
		if v != "" {
			ks = append(ks, k)
		}
	}
	sort.Strings(ks)
	return ks
}

// hostName: the name of the machine the packages are built on (what an rpm states as its build host when none is configured)
func hostName() string {
	h, _ := os.Hostname()
	return h
}
