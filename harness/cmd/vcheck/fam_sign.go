package main

// Family "sign" (C10): signed packages for every method / type / key kind and
// callback-based signing.  The projection reports over WHICH candidate byte
// ranges of the decoded package a stored signature verifies (go-crypto and
// crypto/rsa called directly, plus gpg --verify when available); which range
// is the right one is the spec's business (spec/Sig.tla).

import (
	"bytes"
	"crypto"
	"crypto/rsa"
	"crypto/sha1"
	"crypto/sha256"
	"crypto/x509"
	"encoding/hex"
	"encoding/pem"
	"errors"
	"fmt"
	"io"
	"math/rand"
	"os"
	"os/exec"
	"path/filepath"
	"strings"

	"github.com/ProtonMail/go-crypto/openpgp"
	"github.com/ProtonMail/go-crypto/openpgp/armor"
	"github.com/ProtonMail/go-crypto/openpgp/clearsign"
	"github.com/ProtonMail/go-crypto/openpgp/packet"
	"github.com/goreleaser/nfpm/v2"
)

type candRange struct {
	name string
	data []byte
}

func pgpKeyring(repo string) openpgp.EntityList {
	f, err := os.Open(repo + "/internal/sign/testdata/pubkey.asc")
	must(err)
	defer f.Close()
	kr, err := openpgp.ReadArmoredKeyRing(f)
	must(err)
	return kr
}

func verifiesOver(kr openpgp.EntityList, sig []byte, armored bool, cands []candRange) []any {
	out := make([]any, 0)
	for _, c := range cands {
		var err error
		if armored {
			_, err = openpgp.CheckArmoredDetachedSignature(kr, bytes.NewReader(c.data), bytes.NewReader(sig), nil)
		} else {
			_, err = openpgp.CheckDetachedSignature(kr, bytes.NewReader(c.data), bytes.NewReader(sig), nil)
		}
		if err == nil {
			out = append(out, c.name)
		}
	}
	return out
}

// issuerKeyID extracts the issuer key id of an OpenPGP signature (armored or binary), hex.
func issuerKeyID(sig []byte) string {
	var r io.Reader = bytes.NewReader(sig)
	if bytes.HasPrefix(bytes.TrimSpace(sig), []byte("-----BEGIN")) {
		blk, err := armor.Decode(bytes.NewReader(sig))
		if err != nil {
			return ""
		}
		r = blk.Body
	}
	pr := packet.NewReader(r)
	for {
		p, err := pr.Next()
		if err != nil {
			return ""
		}
		if s, ok := p.(*packet.Signature); ok && s.IssuerKeyId != nil {
			return fmt.Sprintf("%016x", *s.IssuerKeyId)
		}
	}
}

func gpgVerify(scratch, repo string, sig, data []byte) string {
	gpg, err := exec.LookPath("gpg")
	if err != nil {
		return "na"
	}
	home := filepath.Join(scratch, "gnupg")
	if _, err := os.Stat(home); err != nil {
		must(os.MkdirAll(home, 0o700))
		if out, err := exec.Command(gpg, "--homedir", home, "--batch", "--no-autostart", "--import", repo+"/internal/sign/testdata/pubkey.asc").CombinedOutput(); err != nil {
			_ = out
			return "na"
		}
	}
	sp, dp := filepath.Join(scratch, "v.sig"), filepath.Join(scratch, "v.dat")
	os.WriteFile(sp, sig, 0o600)
	os.WriteFile(dp, data, 0o600)
	if err := exec.Command(gpg, "--homedir", home, "--batch", "--no-autostart", "--verify", sp, dp).Run(); err != nil {
		return "fail"
	}
	return "ok"
}

func rsaPub(repo, name string) *rsa.PublicKey {
	b, err := os.ReadFile(repo + "/internal/sign/testdata/" + name)
	must(err)
	blk, _ := pem.Decode(b)
	k, err := x509.ParsePKIXPublicKey(blk.Bytes)
	if err != nil {
		k2, err2 := x509.ParsePKCS1PublicKey(blk.Bytes)
		must(err2)
		return k2
	}
	return k.(*rsa.PublicKey)
}

type signCase struct {
	id       int
	fmtName  string
	method   string // debsign | dpkg-sig | "" (rpm, apk)
	sigType  string
	keyKind  string // file name of the private key, or "callback", "callback-error"
	keyID    string
	keyName  string // apk
	maintain string
	debComp  string
	pubRSA   string
	expectOK bool
	failKind string // "" | callback_error | invalid_type | unknown_key_id | invalid_type_callback
	withPass bool   // a passphrase is in the environment although the key is not protected (it protects another format's key)
	sde      string // SOURCE_DATE_EPOCH in the environment of this packaging ("" = unset)
}

var errCallback = errors.New("callback signer refused")

func famSign(tr *Trace, scratch string, seed int64, tier string, repo string, behaviours string) M {
	os.Unsetenv("SOURCE_DATE_EPOCH")
	rng := rand.New(rand.NewSource(seed + 1234))
	kr := pgpKeyring(repo)
	td := repo + "/internal/sign/testdata/"
	var cases []*signCase
	id := 0
	add := func(c signCase) {
		id++
		c.id = id
		cases = append(cases, &c)
	}
	pgpKeys := []struct{ file, keyID string }{{"privkey.asc", ""}, {"privkey.gpg", ""}, {"privkey_unprotected.asc", ""}, {"privkey_unprotected.gpg", ""},
		{"privkey_unprotected_subkey_only.asc", ""}, {"privkey.asc", "bc8acdd415bd80b3"}, {"privkey_unprotected_subkey_only.asc", "9890904dfb2ec88a"}}
	comps := []string{"", "xz", "zstd", "none", "gzip"}
	for i, k := range pgpKeys {
		for _, ty := range []string{"", "origin", "maint", "archive"} {
			add(signCase{fmtName: "deb", method: "debsign", sigType: ty, keyKind: k.file, keyID: k.keyID, debComp: comps[(i+len(ty))%5], expectOK: true})
		}
		for _, ty := range []string{"", "origin", "builder"} {
			add(signCase{fmtName: "deb", method: "dpkg-sig", sigType: ty, keyKind: k.file, keyID: k.keyID, debComp: comps[(i+len(ty)+1)%5], expectOK: true})
		}
		add(signCase{fmtName: "rpm", keyKind: k.file, keyID: k.keyID, expectOK: true})
	}
	for _, k := range []struct{ priv, pub string }{{"rsa.priv", "rsa.pub"}, {"rsa_unprotected.priv", "rsa_unprotected.pub"}, {"rsa_pkcs8.priv", "rsa_pkcs8.pub"}} {
		for _, kn := range []struct{ name, maint string }{{"origin", "Jane Doe <jane@example.org>"}, {"", "Jane Doe <jane@example.org>"}, {"", "builds@corp"}, {"mykey.rsa.pub", "x <jane@example.us>"},
			{"", "Rsa Pub <abrupt@bar.sub>"}, {"team-repo", ""}} {
			add(signCase{fmtName: "apk", keyKind: k.priv, pubRSA: k.pub, keyName: kn.name, maintain: kn.maint, expectOK: true})
		}
	}
	// the name under which an apk signature is stored: the configured key name whatever the maintainer looks like (free
	// text, an unquoted comma, none at all); neither a key name nor a maintainer address: nothing can name the signature,
	// the signing that was asked for fails
	for _, m := range []string{"ACME Release Engineering", "Foo, Inc. <foo@example.com>", "", "   "} {
		add(signCase{fmtName: "apk", keyKind: "rsa_unprotected.priv", pubRSA: "rsa_unprotected.pub", keyName: "release-key", maintain: m, expectOK: true})
	}
	for _, m := range []string{"", "no address here"} {
		add(signCase{fmtName: "apk", keyKind: "rsa_unprotected.priv", pubRSA: "rsa_unprotected.pub", keyName: "", maintain: m, failKind: "no_key_name"})
		add(signCase{fmtName: "apk", keyKind: "callback", keyName: "", maintain: m, failKind: "no_key_name"})
	}
	// an unprotected key while a passphrase is set (NFPM_PASSPHRASE is global: it may be there for another format's key)
	add(signCase{fmtName: "apk", keyKind: "rsa_unprotected.priv", pubRSA: "rsa_unprotected.pub", keyName: "origin", maintain: "Jane Doe <jane@example.org>", expectOK: true, withPass: true})
	add(signCase{fmtName: "deb", method: "debsign", keyKind: "privkey_unprotected.asc", expectOK: true, withPass: true})
	add(signCase{fmtName: "deb", method: "dpkg-sig", keyKind: "privkey_unprotected.asc", expectOK: true, withPass: true})
	add(signCase{fmtName: "rpm", keyKind: "privkey_unprotected.gpg", expectOK: true, withPass: true})
	// a reproducible-build date EARLIER than the signing key's creation (the test key is from 2020): the signature is made
	// and verifies all the same
	for _, sde := range []string{"1500000000", "0"} {
		add(signCase{fmtName: "deb", method: "debsign", keyKind: "privkey_unprotected.asc", expectOK: true, sde: sde})
		add(signCase{fmtName: "deb", method: "dpkg-sig", keyKind: "privkey_unprotected.asc", expectOK: true, sde: sde})
		add(signCase{fmtName: "rpm", keyKind: "privkey_unprotected.asc", expectOK: true, sde: sde})
		add(signCase{fmtName: "apk", keyKind: "rsa_unprotected.priv", pubRSA: "rsa_unprotected.pub", keyName: "origin", maintain: "Jane Doe <jane@example.org>", expectOK: true, sde: sde})
	}
	// a signer that fails once and would succeed if asked again: its failure is the packaging's failure
	for _, f := range []string{"deb", "rpm", "apk"} {
		add(signCase{fmtName: f, method: map[string]string{"deb": "debsign"}[f], keyKind: "callback-flaky", failKind: "callback_error", keyName: "origin"})
	}
	add(signCase{fmtName: "deb", method: "dpkg-sig", keyKind: "callback-flaky", failKind: "callback_error"})
	// callbacks: the signer is handed the bytes to sign
	for _, f := range []string{"deb", "rpm", "apk"} {
		add(signCase{fmtName: f, method: map[string]string{"deb": "debsign"}[f], keyKind: "callback", expectOK: true, keyName: "origin"})
		add(signCase{fmtName: f, method: map[string]string{"deb": "debsign"}[f], keyKind: "callback-error", failKind: "callback_error", keyName: "origin"})
	}
	// a callback AND a key file: the callback, if set, is what signs
	for _, f := range []string{"deb", "rpm", "apk"} {
		add(signCase{fmtName: f, method: map[string]string{"deb": "debsign"}[f], keyKind: "callback+keyfile", expectOK: true, keyName: "origin"})
		// ... and when that callback fails the key file next to it is no way out: the signing that was asked for failed
		add(signCase{fmtName: f, method: map[string]string{"deb": "debsign"}[f], keyKind: "callback-error+keyfile", failKind: "callback_error", keyName: "origin"})
	}
	add(signCase{fmtName: "deb", method: "dpkg-sig", keyKind: "callback", expectOK: true})
	add(signCase{fmtName: "deb", method: "dpkg-sig", keyKind: "callback-error", failKind: "callback_error"})
	// invalid signature type, with a key file and with a callback
	add(signCase{fmtName: "deb", method: "debsign", sigType: "builder", keyKind: "privkey.asc", failKind: "invalid_type"})
	add(signCase{fmtName: "deb", method: "debsign", sigType: "bogus", keyKind: "callback", failKind: "invalid_type"})
	// a key id that is not in the key file
	for _, f := range []string{"deb", "rpm"} {
		add(signCase{fmtName: f, method: map[string]string{"deb": "debsign"}[f], keyKind: "privkey.asc", keyID: "0123456789abcdef", failKind: "unknown_key_id"})
	}
	add(signCase{fmtName: "deb", method: "dpkg-sig", keyKind: "privkey.asc", keyID: "0123456789abcdef", failKind: "unknown_key_id"})

	for _, sc := range cases {
		pc := genPkgCase(rng, sc.id, "payload", scratch, tier)
		for try := 0; try < 30; try++ {
			Materialise(pc.Root, pc.Nodes)
			if cfg, err := parseCfg(pc.Cfg.YAML(pc.Root)); err == nil {
				if _, _, err := buildFormat(&cfg, sc.fmtName); err == nil {
					break
				}
			}
			os.RemoveAll(pc.Root)
			pc = genPkgCase(rng, sc.id, "payload", scratch, tier)
		}
		c := pc.Cfg
		c.Pmt = 1600000000
		c.DebCompression = sc.debComp
		if sc.maintain != "" || sc.fmtName == "apk" {
			c.Maintainer = sc.maintain
		}
		isCb := strings.HasPrefix(sc.keyKind, "callback")
		if strings.HasSuffix(sc.keyKind, "+keyfile") {
			switch sc.fmtName {
			case "deb":
				c.DebSigKey = td + "privkey_unprotected.asc"
			case "rpm":
				c.RpmSigKey = td + "privkey_unprotected.asc"
			case "apk":
				c.ApkSigKey = td + "rsa_unprotected.priv"
			}
		}
		if !isCb {
			switch sc.fmtName {
			case "deb":
				c.DebSigKey, c.DebSigKeyID = td+sc.keyKind, sc.keyID
			case "rpm":
				c.RpmSigKey, c.RpmSigKeyID = td+sc.keyKind, sc.keyID
			case "apk":
				c.ApkSigKey, c.ApkSigKeyName = td+sc.keyKind, sc.keyName
			}
		} else if sc.fmtName == "apk" {
			c.ApkSigKeyName = sc.keyName
		}
		if sc.fmtName == "deb" {
			c.DebSigMethod, c.DebSigType = sc.method, sc.sigType
			if sc.method == "debsign" && rng.Intn(2) == 0 {
				c.DebSigMethod = "" // debsign is the default
			}
			c.DebSigSigner = "Jane Doe <jane@example.org>"
		}
		os.RemoveAll(pc.Root)
		Materialise(pc.Root, pc.Nodes)
		yaml := c.YAML(pc.Root)
		pass := "hunter2"
		if strings.Contains(sc.keyKind, "unprotected") && !sc.withPass {
			pass = ""
		}
		if sc.sde != "" { // the whole packaging, from parsing on, happens under this reproducible-build date
			os.Setenv("SOURCE_DATE_EPOCH", sc.sde)
		}
		cfg, perr := nfpm.ParseWithEnvMapping(strings.NewReader(yaml), func(k string) string {
			if k == "NFPM_PASSPHRASE" {
				return pass
			}
			return ""
		})
		ev := M{"ev": "sig", "fmt": sc.fmtName, "method": sc.method, "sigtype": sc.sigType, "keykind": sc.keyKind, "keyid": sc.keyID, "keyname": sc.keyName,
			"maintainer": c.Maintainer, "fail": sc.failKind, "err": "", "built": false, "is_signing_failure": false, "wraps_cause": false,
			"member": "", "pos": 0, "nmembers": 0, "verifies_over": []any{}, "gpg": "na", "manifest": []M{}, "manifest_role": "", "callback_got": []any{}, "callback_calls": 0,
			"rpm_header_sig_over": []any{}, "rpm_pgp_sig_over": []any{}, "sig_keyid": "", "deb_data_member": ""}
		emit := func() {
			tr.Emit(sc.id, []M{{"ev": "case", "id": sc.id, "fam": "sign"}, ev, {"ev": "endcase"}})
			os.RemoveAll(pc.Root)
			os.Unsetenv("SOURCE_DATE_EPOCH")
		}
		if perr != nil {
			ev["err"] = "parse: " + safeStr(perr.Error())
			emit()
			continue
		}
		info, _ := cfg.Get(sc.fmtName)
		info = nfpm.WithDefaults(info)
		var got [][]byte
		if isCb {
			fn := func(r io.Reader) ([]byte, error) {
				b, _ := io.ReadAll(r)
				got = append(got, b)
				if strings.HasPrefix(sc.keyKind, "callback-error") || (sc.keyKind == "callback-flaky" && len(got) == 1) {
					return nil, errCallback
				}
				return []byte("-----BEGIN PGP SIGNATURE-----\n\ncallback-signature\n-----END PGP SIGNATURE-----\n"), nil
			}
			switch sc.fmtName {
			case "deb":
				info.Deb.Signature.SignFn = fn
			case "rpm":
				info.RPM.Signature.SignFn = fn
			case "apk":
				info.APK.Signature.SignFn = fn
			}
		}
		pk, _ := nfpm.Get(sc.fmtName)
		var buf bytes.Buffer
		err := pk.Package(info, &buf)
		if err != nil {
			var sf *nfpm.ErrSigningFailure
			ev["err"] = safeStr(strings.ReplaceAll(err.Error(), repo, "$REPO"))
			ev["is_signing_failure"] = errors.As(err, &sf)
			if strings.HasPrefix(sc.keyKind, "callback-error") || sc.keyKind == "callback-flaky" {
				ev["wraps_cause"] = errors.Is(err, errCallback) || (sf != nil && errors.Is(sf.Err, errCallback))
			} else {
				ev["wraps_cause"] = sf != nil && sf.Err != nil
			}
		} else {
			ev["built"] = true
		}
		b := buf.Bytes()
		h := func(x []byte) string { s := sha256.Sum256(x); return hex.EncodeToString(s[:]) }
		var cands []candRange
		if err == nil {
			switch sc.fmtName {
			case "deb":
				mem, derr := parseAr(b)
				if derr != nil || len(mem) < 3 {
					ev["err"] = "decode: " + fmt.Sprint(derr)
					break
				}
				ev["nmembers"] = len(mem)
				ev["deb_data_member"] = mem[2].Name
				cat := func(ms ...arMember) []byte {
					var o []byte
					for _, m := range ms {
						o = append(o, m.Data...)
					}
					return o
				}
				cands = []candRange{{"db+ctl+data", cat(mem[0], mem[1], mem[2])}, {"ctl+data", cat(mem[1], mem[2])}, {"data", mem[2].Data}}
				if len(mem) >= 4 {
					cands = append(cands, candRange{"file-before-signature", b[:mem[3].Off]})
					sm := mem[3]
					ev["member"], ev["pos"] = sm.Name, 4
					if isCb {
						break
					}
					if sc.method == "dpkg-sig" {
						blk, _ := clearsign.Decode(sm.Data)
						if blk == nil {
							ev["err"] = "decode: not a clear-signed document"
							break
						}
						var sigBody bytes.Buffer
						io.Copy(&sigBody, blk.ArmoredSignature.Body)
						if _, verr := openpgp.CheckDetachedSignature(kr, bytes.NewReader(blk.Bytes), bytes.NewReader(sigBody.Bytes()), nil); verr == nil {
							ev["verifies_over"] = []any{"dpkgsig-manifest"}
						}
						ev["sig_keyid"] = issuerKeyID(sigBody.Bytes())
						var man []M
						inFiles := false
						for _, ln := range strings.Split(string(blk.Plaintext), "\n") {
							if strings.HasPrefix(ln, "Role:") {
								ev["manifest_role"] = strings.TrimSpace(strings.TrimPrefix(ln, "Role:"))
							}
							if strings.HasPrefix(ln, "Files:") {
								inFiles = true
								continue
							}
							if inFiles && strings.TrimSpace(ln) != "" {
								f := strings.Fields(ln)
								if len(f) == 4 {
									match, named := false, false
									for _, m := range mem[:3] {
										d := digestsOf(m.Data)
										if m.Name == f[3] {
											named = true
											match = d.MD5 == f[0] && d.SHA1 == f[1] && fmt.Sprint(m.Size) == f[2]
										}
									}
									man = append(man, M{"name": f[3], "names_stored_member": named, "digests_match": match})
								}
							}
						}
						if man == nil {
							man = []M{}
						}
						ev["manifest"] = man
					} else {
						ev["verifies_over"] = verifiesOver(kr, sm.Data, true, cands)
						ev["gpg"] = gpgVerify(scratch, repo, sm.Data, cands[0].data)
						ev["sig_keyid"] = issuerKeyID(sm.Data)
					}
				}
			case "rpm":
				p, derr := parseRpm(b)
				if derr != nil {
					ev["err"] = "decode: " + derr.Error()
					break
				}
				cands = []candRange{{"header", p.Hdr.Raw}, {"header+payload", p.HeaderAndPay}, {"payload", p.Payload}, {"sig+header+payload", b[96:]}}
				if !isCb {
					if s := p.Sig.bin(268); s != nil {
						ev["rpm_header_sig_over"] = verifiesOver(kr, s, false, cands)
					}
					if s := p.Sig.bin(1002); s != nil {
						ev["rpm_pgp_sig_over"] = verifiesOver(kr, s, false, cands)
						ev["sig_keyid"] = issuerKeyID(s)
						ev["gpg"] = gpgVerify(scratch, repo, s, p.HeaderAndPay)
					}
				}
				ev["member"] = fmt.Sprintf("sigtags:%v:%v", p.Sig.find(268) != nil, p.Sig.find(1002) != nil)
			case "apk":
				gz, derr := splitGzip(b)
				if derr != nil || len(gz) < 2 {
					ev["err"] = "decode: " + fmt.Sprint(derr)
					break
				}
				ev["nmembers"] = len(gz)
				first, _ := readTar(bytes.NewReader(gz[0].Raw))
				if len(first) == 1 && strings.HasPrefix(first[0].Name, ".SIGN.") && len(gz) >= 3 {
					ev["member"], ev["pos"] = first[0].Name, 1
					ctl := b[gz[1].Off:gz[1].End]
					cands = []candRange{{"control-segment", ctl}, {"control-tar-raw", gz[1].Raw}, {"data-segment", b[gz[2].Off:gz[2].End]}, {"control+data", b[gz[1].Off:]}}
					if !isCb {
						pub := rsaPub(repo, sc.pubRSA)
						over := make([]any, 0)
						for _, c := range cands {
							d := sha1.Sum(c.data)
							if rsa.VerifyPKCS1v15(pub, crypto.SHA1, d[:], first[0].Data) == nil {
								over = append(over, c.name)
							}
						}
						ev["verifies_over"] = over
					}
				}
			}
		}
		// what a callback was handed
		if isCb {
			ev["callback_calls"] = len(got)
			names := make([]any, 0)
			if err == nil || strings.HasPrefix(sc.keyKind, "callback-error") {
				// for a failing callback the package is not available: rebuild unsigned ranges is impossible; only count calls
				for _, g := range got {
					hit := "unknown"
					for _, c := range cands {
						if sc.fmtName == "apk" {
							d := sha1.Sum(c.data)
							if bytes.Equal(g, d[:]) {
								hit = "sha1(" + c.name + ")"
							}
						} else if h(g) == h(c.data) {
							hit = c.name
						}
					}
					if sc.method == "dpkg-sig" && bytes.Contains(g, []byte("Files:")) {
						hit = "dpkgsig-manifest"
					}
					names = append(names, hit)
				}
			}
			ev["callback_got"] = names
		}
		emit()
	}
	last := 0
	for _, sc := range cases {
		if sc.id > last {
			last = sc.id
		}
	}
	nrot := famSignRotation(tr, &last, scratch)
	nflow := 0
	if behaviours != "" {
		nflow = famSignFlow(tr, &last, scratch, behaviours)
	}
	return M{"cases": len(cases), "key_rotations": nrot, "signflow_behaviours_replayed": nflow}
}
