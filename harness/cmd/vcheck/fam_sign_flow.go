package main

// spec -> code for SignFlow.tla: every terminal behaviour TLC exported (who signs, which key file layout, which key id,
// which passphrase) is replayed on the real packagers with keys generated here, and the terminal state - built or a
// signing failure, and WHO signed - is projected from the package that came out.

import (
	"bytes"
	crand "crypto/rand"
	"crypto/x509"
	"encoding/json"
	"encoding/pem"
	"errors"
	"fmt"
	"io"
	"os"
	"path/filepath"
	"strings"

	"github.com/ProtonMail/go-crypto/openpgp"
	"github.com/ProtonMail/go-crypto/openpgp/armor"
	"github.com/ProtonMail/go-crypto/openpgp/packet"
	"github.com/goreleaser/nfpm/v2"
)

type signBehaviour struct {
	Argv struct {
		Fmt        string `json:"fmt"`
		How        string `json:"how"`
		KeyfileToo bool   `json:"keyfile_too"`
		Layout     string `json:"layout"`
		Protected  bool   `json:"protected"`
		Pass       string `json:"pass"`
		Keyid      string `json:"keyid"`
	} `json:"argv"`
	Outcome string `json:"outcome"`
	Signer  string `json:"signer"`
}

const flowPass = "hunter2"

type flowKey struct {
	file             []byte
	primary, signSub string // key ids (OpenPGP)
	otherSub         string // a subkey that may not sign (encryption)
	rsa              rotKey
}

// flowPGPKey generates an OpenPGP key of the given layout; protected: every secret key is locked with flowPass.
func flowPGPKey(layout string, protected bool) flowKey {
	cfg := &packet.Config{RSABits: 2048}
	e, err := openpgp.NewEntity("flow "+layout, "", "flow@example.org", cfg)
	must(err)
	if layout != "primary_signs" {
		must(e.AddSigningSubkey(cfg))
	}
	if layout == "offline_primary" {
		for _, id := range e.Identities {
			id.SelfSignature.FlagsValid, id.SelfSignature.FlagCertify, id.SelfSignature.FlagSign = true, true, false
		}
	}
	var b bytes.Buffer
	must(e.SerializePrivate(&b, cfg)) // (re-signs the self-signatures: the flags above are what the key says)
	el, err := openpgp.ReadKeyRing(bytes.NewReader(b.Bytes()))
	must(err)
	e = el[0]
	k := flowKey{primary: fmt.Sprintf("%016x", e.PrimaryKey.KeyId)}
	for _, s := range e.Subkeys {
		if s.Sig.FlagsValid && s.Sig.FlagSign {
			k.signSub = fmt.Sprintf("%016x", s.PublicKey.KeyId)
		} else {
			k.otherSub = fmt.Sprintf("%016x", s.PublicKey.KeyId)
		}
	}
	if protected {
		must(e.PrivateKey.Encrypt([]byte(flowPass)))
		for _, s := range e.Subkeys {
			must(s.PrivateKey.Encrypt([]byte(flowPass)))
		}
	}
	var out bytes.Buffer
	w, err := armor.Encode(&out, openpgp.PrivateKeyType, nil)
	must(err)
	must(e.SerializePrivateWithoutSigning(w, nil))
	must(w.Close())
	k.file = out.Bytes()
	return k
}

func flowRSAKey(layout string, protected bool) flowKey {
	rk := newRSAKey()
	blk, _ := pem.Decode(rk.priv)
	priv := rk.priv
	if protected {
		enc, err := x509.EncryptPEMBlock(crand.Reader, blk.Type, blk.Bytes, []byte(flowPass), x509.PEMCipherAES256) //nolint:staticcheck
		must(err)
		priv = pem.EncodeToMemory(enc)
	}
	k := flowKey{rsa: rk}
	switch layout {
	case "single":
		k.file = priv
	case "private_then_public":
		der, err := x509.MarshalPKIXPublicKey(rk.pub)
		must(err)
		k.file = append(append([]byte{}, priv...), pem.EncodeToMemory(&pem.Block{Type: "PUBLIC KEY", Bytes: der})...)
	case "text_then_private":
		k.file = append([]byte("signing key of the build farm, rotated yearly\n\n"), priv...)
	}
	return k
}

func famSignFlow(tr *Trace, id *int, scratch, behaviours string) int {
	b, err := os.ReadFile(behaviours)
	must(err)
	dir := filepath.Join(scratch, "signflow")
	must(os.MkdirAll(dir, 0o755))
	root := filepath.Join(dir, "src")
	Materialise(root, smallTree())
	keys := map[string]flowKey{}
	keyFor := func(pgp bool, layout string, protected bool) flowKey {
		name := fmt.Sprintf("%v-%s-%v", pgp, layout, protected)
		if k, ok := keys[name]; ok {
			return k
		}
		var k flowKey
		switch {
		case layout == "not_a_key":
			k = flowKey{file: []byte("this file holds no key at all\n")}
		case layout == "missing":
		case pgp:
			k = flowPGPKey(layout, protected)
		default:
			k = flowRSAKey(layout, protected)
		}
		keys[name] = k
		return k
	}
	n := 0
	for _, ln := range strings.Split(strings.TrimSpace(string(b)), "\n") {
		if strings.Contains(ln, "\"ops\"") { // a history of KeyHist.tla
			n += replayKeyHist(tr, id, dir, root, ln)
			continue
		}
		var bh signBehaviour
		must(json.Unmarshal([]byte(ln), &bh))
		a := bh.Argv
		f, method := a.Fmt, ""
		if a.Fmt == "debsign" || a.Fmt == "dpkg-sig" {
			f, method = "deb", a.Fmt
		}
		pgp := f != "apk"
		k := keyFor(pgp, a.Layout, a.Protected)
		kp := filepath.Join(dir, fmt.Sprintf("flow-%d.key", n))
		os.Remove(kp)
		if a.Layout != "missing" {
			must(os.WriteFile(kp, k.file, 0o600))
		}
		c := baseCfg("flowpkg")
		c.Entries = []Entry{{Type: "file", Src: "src/bin", Dst: "/usr/bin/tool"}}
		keyID := map[string]string{"none": "", "primary": k.primary, "subkey": k.signSub, "unknown": "0123456789abcdef"}[a.Keyid]
		if a.Keyid == "subkey" && keyID == "" {
			keyID = k.otherSub // (a layout without a signing subkey: the subkey there is, which may not sign)
		}
		withFile := a.How == "keyfile" || a.KeyfileToo
		switch f {
		case "deb":
			c.DebSigMethod = method
			if withFile {
				c.DebSigKey, c.DebSigKeyID = kp, keyID
			}
		case "rpm":
			if withFile {
				c.RpmSigKey, c.RpmSigKeyID = kp, keyID
			}
		case "apk":
			c.ApkSigKeyName = "flow"
			if withFile {
				c.ApkSigKey = kp
			}
		}
		pass := map[string]string{"none": "", "right": flowPass, "wrong": "not-the-passphrase"}[a.Pass]
		ev := M{"ev": "signflow", "argv": M{"fmt": a.Fmt, "how": a.How, "keyfile_too": a.KeyfileToo, "layout": a.Layout, "protected": a.Protected, "pass": a.Pass, "keyid": a.Keyid},
			"tlc": M{"outcome": bh.Outcome, "signer": bh.Signer}, "obs": M{"outcome": "", "signer": ""}, "is_signing_failure": false, "err": "", "callback_calls": 0}
		cfg, perr := nfpm.ParseWithEnvMapping(strings.NewReader(c.YAML(root)), func(name string) string {
			if name == "NFPM_PASSPHRASE" {
				return pass
			}
			return ""
		})
		if perr != nil {
			ev["err"] = "parse: " + safeStr(perr.Error())
		} else {
			info, _ := cfg.Get(f)
			info = nfpm.WithDefaults(info)
			calls := 0
			if a.How != "keyfile" {
				fn := func(r io.Reader) ([]byte, error) {
					io.Copy(io.Discard, r)
					calls++
					if a.How == "callback_err" {
						return nil, errCallback
					}
					return []byte("-----BEGIN PGP SIGNATURE-----\n\ncallback-signature\n-----END PGP SIGNATURE-----\n"), nil
				}
				switch f {
				case "deb":
					info.Deb.Signature.SignFn = fn
				case "rpm":
					info.RPM.Signature.SignFn = fn
				case "apk":
					info.APK.Signature.SignFn = fn
				}
			}
			pk, _ := nfpm.Get(f)
			var buf bytes.Buffer
			err := func() (err error) {
				defer func() {
					if r := recover(); r != nil {
						err = fmt.Errorf("PANIC while packaging: %v", r)
					}
				}()
				return pk.Package(info, &buf)
			}()
			ev["callback_calls"] = calls
			if err != nil {
				var sf *nfpm.ErrSigningFailure
				ev["err"] = safeStr(strings.ReplaceAll(err.Error(), dir, "$DIR"))
				ev["is_signing_failure"] = errors.As(err, &sf)
				ev["obs"] = M{"outcome": "signing_failure", "signer": ""}
				if strings.HasPrefix(err.Error(), "PANIC") {
					ev["obs"] = M{"outcome": "panic", "signer": ""}
				}
			} else {
				var rks []rotKey
				if k.rsa.pub != nil {
					rks = []rotKey{k.rsa}
				}
				who := sigOf(f, method, buf.Bytes(), rks)
				signer := "other:" + who
				switch {
				case pgp && who != "" && who == k.primary:
					signer = "primary"
				case pgp && who != "" && who == k.signSub:
					signer = "subkey"
				case !pgp && who == "key1" && k.rsa.pub != nil:
					signer = "rsa"
				case a.How != "keyfile" && calls > 0:
					signer = "callback" // (what the callback returned is in the package: not made by any key of the key file)
				}
				ev["obs"] = M{"outcome": "built", "signer": signer}
			}
		}
		*id++
		n++
		tr.Emit(*id, []M{{"ev": "case", "id": *id, "fam": "signflow"}, ev, {"ev": "endcase"}})
		os.Remove(kp)
	}
	return n
}

// ---- KeyHist.tla: histories of key file edits and packagings within this process

type keyHistBehaviour struct {
	Fmt     string   `json:"fmt"`
	Ops     []string `json:"ops"`
	Signers []string `json:"signers"`
}

var keyHistKeys = map[bool][]rotKey{} // pgp? -> keys A, B (generated once)

func replayKeyHist(tr *Trace, id *int, dir, root, ln string) int {
	var bh keyHistBehaviour
	must(json.Unmarshal([]byte(ln), &bh))
	f, method := bh.Fmt, ""
	if bh.Fmt == "debsign" || bh.Fmt == "dpkg-sig" {
		f, method = "deb", bh.Fmt
	}
	pgp := f != "apk"
	if keyHistKeys[pgp] == nil {
		if pgp {
			keyHistKeys[pgp] = []rotKey{newPGPKey("hist-a"), newPGPKey("hist-b")}
		} else {
			keyHistKeys[pgp] = []rotKey{newRSAKey(), newRSAKey()}
		}
	}
	keys := keyHistKeys[pgp]
	kp := filepath.Join(dir, "hist-"+bh.Fmt+".key")
	os.Remove(kp)
	c := baseCfg("histpkg")
	c.Entries = []Entry{{Type: "file", Src: "src/bin", Dst: "/usr/bin/tool"}}
	switch f {
	case "deb":
		c.DebSigKey, c.DebSigMethod = kp, method
	case "rpm":
		c.RpmSigKey = kp
	case "apk":
		c.ApkSigKey, c.ApkSigKeyName = kp, "hist"
	}
	y := c.YAML(root)
	obs := make([]any, 0, len(bh.Ops))
	for _, op := range bh.Ops {
		switch op {
		case "writeA":
			must(os.WriteFile(kp, keys[0].priv, 0o600))
			obs = append(obs, "")
		case "writeB":
			must(os.WriteFile(kp, keys[1].priv, 0o600))
			obs = append(obs, "")
		case "remove":
			os.Remove(kp)
			obs = append(obs, "")
		case "package":
			who := "failure"
			if cfg, err := parseCfg(y); err == nil {
				if b, _, err := buildFormat(&cfg, f); err == nil {
					w := sigOf(f, method, b, keys)
					switch {
					case w == "key1" || (pgp && contains(keys[0].ids, w)):
						who = "A"
					case w == "key2" || (pgp && contains(keys[1].ids, w)):
						who = "B"
					default:
						who = "other:" + w
					}
				}
			}
			obs = append(obs, who)
		}
	}
	os.Remove(kp)
	*id++
	tr.Emit(*id, []M{{"ev": "case", "id": *id, "fam": "keyhist"},
		{"ev": "keyhist", "fmt": bh.Fmt, "ops": strs(bh.Ops), "tlc": strs(bh.Signers), "obs": obs}, {"ev": "endcase"}})
	return 1
}

func contains(l []string, x string) bool {
	for _, y := range l {
		if y == x {
			return true
		}
	}
	return false
}
