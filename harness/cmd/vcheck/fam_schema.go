package main

// Family "schema" (C17): the JSON schema emitted by `nfpm jsonschema`, the
// strict parser and the packagers, related to one another:
//   - the published schema file equals what the command writes;
//   - the key paths the schema allows = the key paths the parser accepts;
//   - a document the parser accepts and a packager builds validates.

import (
	"bytes"
	"encoding/json"
	"fmt"
	"math/rand"
	"os"
	"os/exec"
	"path/filepath"
	"regexp"
	"sort"
	"strings"
	"time"

	"github.com/goreleaser/nfpm/v2"
	yamlv3 "gopkg.in/yaml.v3"
)

// ---------------------------------------------------------------- a validator for the schema subset in use
// (type, properties, additionalProperties, required, enum, items, $ref to #/$defs/*)

type schemaDoc struct {
	root map[string]any
}

func (s *schemaDoc) resolve(n map[string]any) map[string]any {
	for {
		ref, ok := n["$ref"].(string)
		if !ok {
			return n
		}
		name := strings.TrimPrefix(ref, "#/$defs/")
		defs, _ := s.root["$defs"].(map[string]any)
		nn, ok := defs[name].(map[string]any)
		if !ok {
			return map[string]any{}
		}
		n = nn
	}
}

func jsType(v any) string {
	switch x := v.(type) {
	case nil:
		return "null"
	case bool:
		return "boolean"
	case string:
		return "string"
	case float64:
		if x == float64(int64(x)) {
			return "integer"
		}
		return "number"
	case map[string]any:
		return "object"
	case []any:
		return "array"
	}
	return "?"
}

func (s *schemaDoc) validate(n map[string]any, v any, path string, errs *[]string) {
	n = s.resolve(n)
	if t, ok := n["type"].(string); ok {
		jt := jsType(v)
		if !(jt == t || (t == "number" && jt == "integer")) {
			*errs = append(*errs, fmt.Sprintf("%s: type %s, want %s", path, jt, t))
			return
		}
	}
	for _, kw := range []string{"oneOf", "anyOf"} {
		if alts, ok := n[kw].([]any); ok {
			matches := 0
			var first []string
			for _, a := range alts {
				am, _ := a.(map[string]any)
				var sub []string
				s.validate(am, v, path, &sub)
				if len(sub) == 0 {
					matches++
				} else if first == nil {
					first = sub
				}
			}
			if matches == 0 || (kw == "oneOf" && matches != 1) {
				*errs = append(*errs, fmt.Sprintf("%s: %d alternatives of %s match (%s)", path, matches, kw, strings.Join(first, ", ")))
			}
		}
	}
	if pat, ok := n["pattern"].(string); ok {
		if sv, isStr := v.(string); isStr {
			if re, err := regexp.Compile(pat); err == nil && !re.MatchString(sv) {
				*errs = append(*errs, fmt.Sprintf("%s: value %q does not match pattern %s", path, sv, pat))
			}
		}
	}
	if en, ok := n["enum"].([]any); ok {
		found := false
		for _, e := range en {
			if fmt.Sprint(e) == fmt.Sprint(v) {
				found = true
			}
		}
		if !found {
			*errs = append(*errs, fmt.Sprintf("%s: value %v not in enum", path, v))
		}
	}
	switch x := v.(type) {
	case map[string]any:
		props, _ := n["properties"].(map[string]any)
		for k, val := range x {
			if p, ok := props[k].(map[string]any); ok {
				s.validate(p, val, path+"."+k, errs)
				continue
			}
			switch ap := n["additionalProperties"].(type) {
			case bool:
				if !ap {
					*errs = append(*errs, fmt.Sprintf("%s: additional property %q", path, k))
				}
			case map[string]any:
				s.validate(ap, val, path+"."+k, errs)
			}
		}
		if req, ok := n["required"].([]any); ok {
			for _, r := range req {
				if _, ok := x[r.(string)]; !ok {
					*errs = append(*errs, fmt.Sprintf("%s: missing required %q", path, r))
				}
			}
		}
	case []any:
		if it, ok := n["items"].(map[string]any); ok {
			for i, e := range x {
				s.validate(it, e, fmt.Sprintf("%s[%d]", path, i), errs)
			}
		}
	}
}

// paths enumerates the key paths the schema allows, in the notation of reflect.go.
func (s *schemaDoc) paths(n map[string]any, prefix []string, out map[string]bool, depth int) {
	if depth > 14 {
		return
	}
	n = s.resolve(n)
	props, _ := n["properties"].(map[string]any)
	for k, pv := range props {
		p, _ := pv.(map[string]any)
		segs := append(append([]string{}, prefix...), k)
		out[strings.Join(segs, ".")] = true
		r := s.resolve(p)
		if it, ok := r["items"].(map[string]any); ok {
			ri := s.resolve(it)
			if _, isObj := ri["properties"]; isObj {
				s.paths(ri, append(segs, "[]"), out, depth+1)
			}
		}
		if _, isObj := r["properties"]; isObj {
			s.paths(r, segs, out, depth+1)
		}
		if ap, ok := r["additionalProperties"].(map[string]any); ok {
			ra := s.resolve(ap)
			if _, isObj := ra["properties"]; isObj {
				s.paths(ra, append(segs, "<fmt>"), out, depth+1)
			}
		}
	}
}

func toJSONable(v any) any {
	switch x := v.(type) {
	case map[string]any:
		o := map[string]any{}
		for k, e := range x {
			o[k] = toJSONable(e)
		}
		return o
	case []any:
		o := make([]any, len(x))
		for i, e := range x {
			o[i] = toJSONable(e)
		}
		return o
	case rawYAML:
		s := string(x)
		if strings.HasPrefix(s, "0o") {
			var n int
			fmt.Sscanf(s[2:], "%o", &n)
			return float64(n)
		}
		if s == "0" {
			return float64(0)
		}
		return s
	case int:
		return float64(x)
	}
	return v
}

// auxBehaviours: file of terminal states exported by TLC from CliAux.tla (one JSON object per line), replayed on the binary.
var auxBehaviours string

type auxBehaviour struct {
	Argv struct {
		Cmd string `json:"cmd"`
		At  string `json:"at"`
	} `json:"argv"`
	Exit    int    `json:"exit"`
	Fs      string `json:"fs"`
	Printed bool   `json:"printed"`
}

// replayAux runs `nfpm init` / `nfpm jsonschema` once per exported behaviour and projects the outcome onto CliAux's state.
func replayAux(emit func(M), scratch, nfpmBin, repo string) int {
	if auxBehaviours == "" {
		return 0
	}
	b, err := os.ReadFile(auxBehaviours)
	must(err)
	wantInit, _ := os.ReadFile(repo + "/internal/cmd/example.yml")
	wantSchema, _ := exec.Command(nfpmBin, "jsonschema").Output()
	n := 0
	for _, ln := range strings.Split(strings.TrimSpace(string(b)), "\n") {
		var beh auxBehaviour
		must(json.Unmarshal([]byte(ln), &beh))
		n++
		dir := filepath.Join(scratch, fmt.Sprintf("aux-%d", n))
		must(os.MkdirAll(dir, 0o755))
		target := filepath.Join(dir, "out.file")
		old := bytes.Repeat([]byte("OLD-CONTENT-"), 40000)
		switch beh.Argv.At {
		case "existing_larger":
			must(os.WriteFile(target, old, 0o644))
		case "dir":
			must(os.MkdirAll(target, 0o755))
		case "missing_parent":
			target = filepath.Join(dir, "no", "such", "dir", "out.file")
		case "stdout":
			target = "-"
		}
		flag, want := "-f", wantInit
		if beh.Argv.Cmd == "jsonschema" {
			flag, want = "-o", bytes.TrimRight(wantSchema, "\n")
		}
		cmd := exec.Command(nfpmBin, beh.Argv.Cmd, flag, target)
		cmd.Dir = dir
		var so, se bytes.Buffer
		cmd.Stdout, cmd.Stderr = &so, &se
		exit := 0
		if err := cmd.Run(); err != nil {
			exit = 1
		}
		obsFs := "absent"
		if st, err := os.Lstat(target); err == nil && target != "-" {
			if st.IsDir() {
				obsFs = "old"
			} else if got, err := os.ReadFile(target); err == nil {
				switch {
				case bytes.Equal(bytes.TrimRight(got, "\n"), bytes.TrimRight(want, "\n")):
					obsFs = "complete"
				case bytes.Equal(got, old):
					obsFs = "old"
				default:
					obsFs = "partial"
				}
			}
		}
		printed := target == "-" && bytes.Equal(bytes.TrimRight(so.Bytes(), "\n"), bytes.TrimRight(want, "\n"))
		stray := 0
		filepath.Walk(dir, func(p string, fi os.FileInfo, err error) error {
			if err == nil && !fi.IsDir() && p != target {
				stray++
			}
			return nil
		})
		emit(M{"ev": "aux", "cmd": beh.Argv.Cmd, "at": beh.Argv.At, "tlc": M{"exit": beh.Exit, "fs": beh.Fs, "printed": beh.Printed},
			"obs_exit": exit, "obs_fs": obsFs, "obs_printed": printed, "stray_files": stray, "stderr": safeStr(firstN(se.String(), 200))})
		os.RemoveAll(dir)
	}
	return n
}

// parseText: the reader entry point on a literal text, a panic reported as an error
func parseText(text string) (cfg nfpm.Config, err error) {
	defer func() {
		if r := recover(); r != nil {
			err = fmt.Errorf("PANIC in the parser: %v", r)
		}
	}()
	return nfpm.ParseWithEnvMapping(strings.NewReader(text), func(string) string { return "" })
}

func famSchema(tr *Trace, scratch string, seed int64, tier string, repo, nfpmBin string) M {
	id := 0
	emit := func(ev M) {
		id++
		tr.Emit(id, []M{{"ev": "case", "id": id, "fam": ev["ev"]}, ev, {"ev": "endcase"}})
	}
	// (1) the published file equals what the command writes
	emitted := filepath.Join(scratch, "emitted-schema.json")
	// something longer is already at the output path (a schema written by an earlier version)
	must(os.WriteFile(emitted, bytes.Repeat([]byte("{\"stale\": true}\n"), 4000), 0o644))
	out, err := exec.Command(nfpmBin, "jsonschema", "-o", emitted).CombinedOutput()
	eb, _ := os.ReadFile(emitted)
	pb, perr := os.ReadFile(repo + "/www/docs/static/schema.json")
	msg := ""
	if err != nil {
		msg = safeStr(string(out))
	}
	if perr != nil {
		msg += " published: " + perr.Error()
	}
	emit(M{"ev": "schemafile", "identical": err == nil && perr == nil && bytes.Equal(eb, pb), "emitted_sha": sha256hex(eb)[:16], "published_sha": sha256hex(pb)[:16], "err": msg,
		"emitted_len": len(eb), "published_len": len(pb)})
	// ... and the command writes the same bytes wherever it is started from (the root of the source tree included)
	for _, dir := range []string{repo, repo + "/internal/cmd", scratch} {
		cmd := exec.Command(nfpmBin, "jsonschema")
		cmd.Dir = dir
		ob, oerr := cmd.Output()
		emit(M{"ev": "schemafile", "identical": oerr == nil && bytes.Equal(bytes.TrimRight(ob, "\n"), bytes.TrimRight(pb, "\n")), "emitted_sha": sha256hex(ob)[:16], "published_sha": sha256hex(pb)[:16], "err": "",
			"emitted_len": len(ob), "published_len": len(pb)})
	}
	var root map[string]any
	if json.Unmarshal(eb, &root) != nil {
		emit(M{"ev": "schemaparse", "err": "emitted schema is not JSON"})
		return M{"cases": id}
	}
	sd := &schemaDoc{root: root}

	// (2) key paths: schema vs strict parser (yaml tags, by reflection)
	sp := map[string]bool{}
	sd.paths(root, nil, sp, 0)
	pp := map[string]bool{}
	for _, k := range configKeyPaths("yaml") {
		pp[k.String()] = true
	}
	all := map[string]bool{}
	for k := range sp {
		all[k] = true
	}
	for k := range pp {
		all[k] = true
	}
	keys := make([]string, 0)
	for k := range all {
		keys = append(keys, k)
	}
	sort.Strings(keys)
	for _, k := range keys {
		emit(M{"ev": "keypath", "path": k, "in_schema": sp[k], "in_parser": pp[k]})
	}

	// (3) every documented enumerated value of every setting
	root0 := filepath.Join(scratch, "schema-src")
	Materialise(root0, smallTree())
	cross := false // a value documented for another setting of the same kind, tried here: not building is expected
	probe := func(setting, value string, doc map[string]any, formats []string) {
		y := docYAML(doc)
		cfg, perr := nfpm.ParseWithEnvMapping(strings.NewReader(y), func(string) string { return "" })
		builds := perr == nil
		berr := ""
		if perr == nil {
			for _, f := range formats {
				if _, _, e := buildFormat(&cfg, f); e != nil {
					builds = false
					berr = safeStr(strings.ReplaceAll(e.Error(), root0, "$ROOT"))
				}
			}
		} else {
			berr = safeStr(perr.Error())
		}
		var errs []string
		sd.validate(root, toJSONable(doc), "$", &errs)
		es := ""
		if len(errs) > 0 {
			es = safeStr(strings.Join(errs, "; "))
			if len(es) > 300 {
				es = es[:300]
			}
		}
		emit(M{"ev": "enumprobe", "setting": setting, "value": value, "parser_accepts": perr == nil, "builds": builds, "build_err": berr, "schema_valid": len(errs) == 0, "schema_err": es, "cross": cross})
	}
	base := func() map[string]any {
		d := map[string]any{"name": "probe", "arch": "amd64", "version": "1.0.0", "maintainer": "M <m@example.org>", "description": "d"}
		return d
	}
	for _, t := range []string{"", "file", "config", "config|noreplace", "config|missingok", "dir", "symlink", "tree", "ghost", "doc", "licence", "license", "readme"} {
		d := base()
		e := map[string]any{"dst": "/usr/share/probe/item"}
		switch t {
		case "dir", "ghost":
		case "symlink":
			e["src"] = "/usr/bin/x"
		case "tree":
			e["src"] = root0 + "/src/sub"
		default:
			e["src"] = root0 + "/src/app.conf"
		}
		if t != "" {
			e["type"] = t
		}
		d["contents"] = []any{e}
		probe("contents[].type", t, d, allFormats)
	}
	for _, c := range []string{"gzip", "xz", "zstd", "none"} {
		d := base()
		d["deb"] = map[string]any{"compression": c}
		probe("deb.compression", c, d, []string{"deb"})
	}
	for _, c := range []string{"gzip", "lzma", "xz", "zstd", "gzip:9", "gzip:-1", "zstd:3", "gzip:1"} {
		d := base()
		d["rpm"] = map[string]any{"compression": c}
		probe("rpm.compression", c, d, []string{"rpm"})
	}
	// every compression name documented for ANY format, tried on each compression setting: whatever a packager turns out to
	// build must validate
	cross = true
	for _, c := range []string{"gzip", "xz", "zstd", "none", "lzma", "gzip:9", "zstd:3", "xz:6", "lzma:6", "bzip2", "lz4", "gz", "gz:9", "zst", "zst:3", "bz2", "lz", "zstd:fastest-ish", "GZIP"} {
		d := base()
		d["deb"] = map[string]any{"compression": c}
		probe("deb.compression", c, d, []string{"deb"})
		d = base()
		d["rpm"] = map[string]any{"compression": c}
		probe("rpm.compression", c, d, []string{"rpm"})
	}
	// a compression spelled as a reference to the environment: if the parser expanded it and the packager built it, the
	// document - as written - would have to validate
	for _, f := range []string{"deb", "rpm"} {
		d := base()
		d[f] = map[string]any{"compression": "${VERIF_COMP}"}
		y := docYAML(d)
		cfg, perr := nfpm.ParseWithEnvMapping(strings.NewReader(y), func(k string) string {
			if k == "VERIF_COMP" {
				return "xz"
			}
			return ""
		})
		builds := perr == nil
		if perr == nil {
			if _, _, e := buildFormat(&cfg, f); e != nil {
				builds = false
			}
		}
		var errs []string
		sd.validate(root, toJSONable(d), "$", &errs)
		emit(M{"ev": "enumprobe", "setting": f + ".compression", "value": "${VERIF_COMP}", "parser_accepts": perr == nil, "builds": builds, "build_err": "", "schema_valid": len(errs) == 0,
			"schema_err": safeStr(strings.Join(errs, "; ")), "cross": true})
	}
	cross = false
	// keys the schema does not allow must not be accepted by the parser either - whichever way the document gets to it
	{
		fdir := filepath.Join(scratch, "strict")
		must(os.MkdirAll(fdir, 0o755))
		seen := map[string]bool{}
		for _, k := range configKeyPaths("yaml") {
			last := k.Segs[len(k.Segs)-1]
			if last == "[]" || last == "<fmt>" {
				continue
			}
			parent := strings.Join(k.Segs[:len(k.Segs)-1], ".")
			if seen[parent] {
				continue
			}
			seen[parent] = true
			segs := append(append([]string{}, k.Segs[:len(k.Segs)-1]...), last+"_unknown")
			d := base()
			setPath(d, segs, "x", "deb")
			y := docYAML(d)
			_, rerr := nfpm.ParseWithEnvMapping(strings.NewReader(y), func(string) string { return "" })
			fp := filepath.Join(fdir, "probe.yaml")
			must(os.WriteFile(fp, []byte(y), 0o644))
			_, ferr := nfpm.ParseFileWithEnvMapping(fp, func(string) string { return "" })
			cli := exec.Command(nfpmBin, "package", "-f", fp, "-p", "deb", "-t", filepath.Join(fdir, "out.deb"))
			cerr := cli.Run()
			os.Remove(filepath.Join(fdir, "out.deb"))
			var errs []string
			sd.validate(root, toJSONable(d), "$", &errs)
			emit(M{"ev": "strictprobe", "path": strings.ReplaceAll(strings.Join(segs, "."), "<fmt>", "deb"), "schema_valid": len(errs) == 0,
				"accepted_reader": rerr == nil, "accepted_file": ferr == nil, "accepted_cli": cerr == nil})
			// the same question for a document written as JSON, and for the key in another letter case (key paths are case sensitive
			// in the schema): the last key of the path in capitals / capitalised, everything else a valid document
			for _, variant := range []string{last + "_unknown", strings.ToUpper(last), strings.ToUpper(last[:1]) + last[1:]} {
				if variant == last {
					continue
				}
				segs2 := append(append([]string{}, k.Segs[:len(k.Segs)-1]...), variant)
				d2 := base()
				var val any = sampleValue(k, 1)
				if variant == last+"_unknown" || k.Kind == "struct" {
					val = "x"
				}
				setPath(d2, segs2, val, "deb")
				js, jerr := json.Marshal(toJSONable(d2))
				if jerr != nil {
					continue
				}
				_, rerr2 := parseText(string(js))
				fj := filepath.Join(fdir, "probe.json")
				must(os.WriteFile(fj, js, 0o644))
				_, ferr2 := func() (c nfpm.Config, err error) {
					defer func() {
						if r := recover(); r != nil {
							err = fmt.Errorf("PANIC in the parser: %v", r)
						}
					}()
					return nfpm.ParseFileWithEnvMapping(fj, func(string) string { return "" })
				}()
				var errs2 []string
				sd.validate(root, toJSONable(d2), "$", &errs2)
				if len(errs2) == 0 && variant != last+"_unknown" {
					continue // (the schema takes any key here, e.g. below a map: no question to ask)
				}
				emit(M{"ev": "strictprobe", "path": strings.ReplaceAll(strings.Join(segs2, "."), "<fmt>", "deb") + " (json)", "schema_valid": len(errs2) == 0,
					"accepted_reader": rerr2 == nil, "accepted_file": ferr2 == nil, "accepted_cli": false})
			}
		}
	}
	// every signer role either method knows, tried with both methods (debsign refuses "builder": no obligation then)
	cross = true
	for _, m := range []string{"debsign", "dpkg-sig"} {
		d := base()
		d["deb"] = map[string]any{"signature": map[string]any{"method": m, "type": "builder", "key_file": repo + "/internal/sign/testdata/privkey_unprotected.asc"}}
		probe("deb.signature.method+type", m+"+builder", d, []string{"deb"})
	}
	// content types composed of the documented flag words in other combinations
	for _, t := range []string{"config|missingok|noreplace", "config|noreplace|missingok", "noreplace", "missingok", "config|", "ghost|config", "file|config"} {
		d := base()
		d["contents"] = []any{map[string]any{"src": root0 + "/src/app.conf", "dst": "/etc/probe/item", "type": t}}
		probe("contents[].type", t, d, allFormats)
	}
	cross = false
	for _, m := range []string{"debsign", "dpkg-sig"} {
		for _, ty := range []string{"origin", "maint", "archive"} {
			d := base()
			d["deb"] = map[string]any{"signature": map[string]any{"method": m, "type": ty, "key_file": repo + "/internal/sign/testdata/privkey_unprotected.asc"}}
			probe("deb.signature.method+type", m+"+"+ty, d, []string{"deb"})
		}
	}
	for _, vs := range []string{"semver", "none"} {
		d := base()
		d["version_schema"] = vs
		probe("version_schema", vs, d, allFormats)
	}
	for _, f := range allFormats {
		d := base()
		d["overrides"] = map[string]any{f: map[string]any{"depends": []any{"x"}}}
		probe("overrides.<fmt>", f, d, []string{f})
	}
	{ // a signed apk relying on the documented key-name default
		d := base()
		d["apk"] = map[string]any{"signature": map[string]any{"key_file": repo + "/internal/sign/testdata/rsa_unprotected.priv"}}
		probe("apk.signature", "default key_name", d, []string{"apk"})
	}
	// every leaf of the configuration with a type-correct value (what the parser accepts must validate)
	for _, k := range configKeyPaths("yaml") {
		if k.Kind == "struct" || k.Segs[0] == "version_schema" {
			continue
		}
		last := k.Segs[len(k.Segs)-1]
		if (last == "type" || last == "compression" || last == "method") && k.Kind == "string" {
			continue // enumerated settings: probed with their documented values above
		}
		d := base()
		setPath(d, k.Segs, sampleValue(k, 1), "deb")
		y := docYAML(d)
		_, perr := nfpm.ParseWithEnvMapping(strings.NewReader(y), func(string) string { return "" })
		var errs []string
		sd.validate(root, toJSONable(d), "$", &errs)
		es := ""
		if len(errs) > 0 {
			es = safeStr(strings.Join(errs, "; "))
		}
		emit(M{"ev": "leafprobe", "path": strings.ReplaceAll(k.String(), "<fmt>", "deb"), "parser_accepts": perr == nil, "schema_valid": len(errs) == 0, "schema_err": es})
		// ... the same document in the notation of the schema itself (JSON is YAML: one parser, one answer)
		if js, jerr := json.Marshal(toJSONable(d)); jerr == nil {
			_, perr2 := parseText(string(js))
			emit(M{"ev": "leafprobe", "path": strings.ReplaceAll(k.String(), "<fmt>", "deb") + " (json)", "parser_accepts": perr2 == nil, "schema_valid": len(errs) == 0, "schema_err": es})
		}
	}
	// numbers where the schema allows a number or a string (epoch, release), written as JSON
	for _, key := range []string{"epoch", "release"} {
		for _, v := range []any{3, "3"} {
			d := base()
			d[key] = v
			js, _ := json.Marshal(toJSONable(d))
			_, perr := parseText(string(js))
			var errs []string
			sd.validate(root, toJSONable(d), "$", &errs)
			emit(M{"ev": "leafprobe", "path": fmt.Sprintf("%s=%#v (json)", key, v), "parser_accepts": perr == nil, "schema_valid": len(errs) == 0, "schema_err": safeStr(strings.Join(errs, "; "))})
		}
	}
	// a value of another shape than the schema gives the setting (a quoted number, a quoted truth value): if the parser takes
	// it and the packagers build it, the schema has to allow it
	cross = true
	for _, sh := range []struct {
		name string
		set  func(d map[string]any)
	}{
		{"contents[].file_info.mode=\"0640\"", func(d map[string]any) {
			d["contents"] = []any{map[string]any{"src": root0 + "/src/bin", "dst": "/usr/bin/probe", "file_info": map[string]any{"mode": "0640"}}}
		}},
		{"contents[].file_info.mode=\"755\"", func(d map[string]any) {
			d["contents"] = []any{map[string]any{"src": root0 + "/src/bin", "dst": "/usr/bin/probe", "file_info": map[string]any{"mode": "755"}}}
		}},
		{"overrides.rpm.contents[].file_info.mode=\"0640\"", func(d map[string]any) {
			d["overrides"] = map[string]any{"rpm": map[string]any{"contents": []any{map[string]any{"src": root0 + "/src/bin", "dst": "/usr/bin/probe", "file_info": map[string]any{"mode": "0640"}}}}}
		}},
		{"umask=\"027\"", func(d map[string]any) { d["umask"] = "027" }},
		{"contents[].expand=\"true\"", func(d map[string]any) {
			d["contents"] = []any{map[string]any{"src": root0 + "/src/bin", "dst": "/usr/bin/probe", "expand": "true"}}
		}},
		{"disable_globbing=\"true\"", func(d map[string]any) { d["disable_globbing"] = "true" }},
		{"ipk.alternatives[].priority=\"100\"", func(d map[string]any) {
			d["ipk"] = map[string]any{"alternatives": []any{map[string]any{"priority": "100", "target": "/t", "link_name": "/l"}}}
		}},
		{"depends=\"one\"", func(d map[string]any) { d["depends"] = "one" }},
		{"ipk.alternatives[]=\"100:/usr/bin/vi:/usr/bin/vim\"", func(d map[string]any) {
			d["ipk"] = map[string]any{"alternatives": []any{"100:/usr/bin/vi:/usr/bin/vim"}}
		}},
		{"contents[]=\"src:dst\"", func(d map[string]any) { d["contents"] = []any{root0 + "/src/bin:/usr/bin/probe"} }},
		{"scripts=\"path\"", func(d map[string]any) { d["scripts"] = root0 + "/src/bin" }},
		{"deb.triggers.interest=\"one\"", func(d map[string]any) { d["deb"] = map[string]any{"triggers": map[string]any{"interest": "one"}} }},
		{"deb.fields=[list]", func(d map[string]any) { d["deb"] = map[string]any{"fields": []any{"Bugs: x"}} }},
		{"changelog={map}", func(d map[string]any) { d["changelog"] = map[string]any{"file": "changelog.yaml"} }},
		{"rpm.prefixes=\"/opt\"", func(d map[string]any) { d["rpm"] = map[string]any{"prefixes": "/opt"} }},
		{"contents[].file_info.mtime=\"2020-01-01\"", func(d map[string]any) {
			d["contents"] = []any{map[string]any{"src": root0 + "/src/bin", "dst": "/usr/bin/probe", "file_info": map[string]any{"mtime": "2020-01-01"}}}
		}},
	} {
		d := base()
		sh.set(d)
		probe("value-shape", sh.name, d, allFormats)
	}
	cross = false

	// file modes: plain, and with setuid / setgid / sticky bits (decimal in JSON)
	for _, mode := range []string{"0o644", "0o755", "0o4755", "0o2755", "0o1777", "0o7777"} {
		d := base()
		d["contents"] = []any{map[string]any{"src": root0 + "/src/bin", "dst": "/usr/bin/probe", "file_info": map[string]any{"mode": rawYAML(mode)}}}
		d["umask"] = rawYAML("0o27")
		probe("contents[].file_info.mode", mode, d, allFormats)
	}

	// (3b) the documents the project itself publishes: the file `nfpm init` writes and the reference configuration of the
	// documentation.  Every key they use is a documented key: the strict parser must accept them and the schema must too.
	{
		type docSrc struct{ name, text string }
		var docs []docSrc
		initPath := filepath.Join(scratch, "init-nfpm.yaml")
		if out, err := exec.Command(nfpmBin, "init", "-f", initPath).CombinedOutput(); err == nil {
			b, _ := os.ReadFile(initPath)
			docs = append(docs, docSrc{"nfpm init", string(b)})
		} else {
			docs = append(docs, docSrc{"nfpm init", "!!! " + string(out)})
		}
		if b, err := os.ReadFile(repo + "/www/docs/configuration.md"); err == nil {
			parts := strings.Split(string(b), "```")
			for i := 1; i < len(parts); i += 2 {
				if strings.HasPrefix(parts[i], "yaml\n") && strings.Contains(parts[i], "\nname:") {
					docs = append(docs, docSrc{fmt.Sprintf("configuration.md block %d", (i+1)/2), strings.TrimPrefix(parts[i], "yaml\n")})
				}
			}
		}
		for _, d := range docs {
			var perr error
			func() {
				defer func() {
					if r := recover(); r != nil {
						perr = fmt.Errorf("PANIC in the parser: %v", r)
					}
				}()
				_, perr = nfpm.ParseWithEnvMapping(strings.NewReader(d.text), func(k string) string { return "envvalue" })
			}()
			pe := ""
			if perr != nil {
				pe = safeStr(perr.Error())
				if len(pe) > 300 {
					pe = pe[:300]
				}
			}
			var errs []string
			doc := yamlToGeneric(d.text)
			if doc != nil {
				sd.validate(root, doc, "$", &errs)
			}
			es := safeStr(strings.Join(errs, "; "))
			if len(es) > 400 {
				es = es[:400]
			}
			emit(M{"ev": "docprobe", "source": d.name, "is_yaml": doc != nil, "parser_accepts": perr == nil, "parser_err": pe, "schema_valid": doc != nil && len(errs) == 0, "schema_err": es})
		}
	}

	// (3c) spec -> code: the terminal states TLC computed for `nfpm init` / `nfpm jsonschema` (CliAux.tla), on the real binary
	naux := replayAux(emit, scratch, nfpmBin, repo)
	_ = naux

	// (4) generated valid configurations, as documents
	rng := rand.New(rand.NewSource(seed + 4))
	n := 40
	if tier == "thorough" {
		n = 600
	}
	for i := 0; i < n; i++ {
		pc := genPkgCase(rng, 5000+i, []string{"payload", "meta", "scripts"}[i%3], scratch, tier)
		Materialise(pc.Root, pc.Nodes)
		if pc.Cfg.Changelog != nil {
			os.WriteFile(filepath.Join(pc.Root, "changelog.yaml"), []byte(pc.Cfg.ChangelogYAML()), 0o644)
		}
		y := pc.Cfg.YAML(pc.Root)
		cfg, perr := parseCfg(y)
		builds := perr == nil
		if perr == nil {
			for _, f := range allFormats {
				if _, _, e := buildFormat(&cfg, f); e != nil {
					builds = false
				}
			}
		}
		// the same document as a generic value: decode the YAML we rendered with a generic decoder (JSON-compatible subset)
		doc := yamlToGeneric(y)
		var errs []string
		if doc != nil {
			sd.validate(root, doc, "$", &errs)
		}
		es := ""
		if len(errs) > 0 {
			es = safeStr(strings.ReplaceAll(strings.Join(errs, "; "), pc.Root, "$ROOT"))
			if len(es) > 300 {
				es = es[:300]
			}
		}
		emit(M{"ev": "enumprobe", "setting": "generated-config", "value": pc.Profile, "parser_accepts": perr == nil, "builds": builds, "build_err": "", "schema_valid": doc != nil && len(errs) == 0, "schema_err": es, "cross": false})
		os.RemoveAll(pc.Root)
	}
	return M{"cases": id, "schema_paths": len(sp), "parser_paths": len(pp)}
}

// yamlToGeneric decodes a YAML document into JSON-like values (a generic decoder, not nfpm's structs).
func yamlToGeneric(y string) any {
	var v any
	if err := yamlv3.Unmarshal([]byte(y), &v); err != nil {
		return nil
	}
	var conv func(x any) any
	conv = func(x any) any {
		switch t := x.(type) {
		case map[string]any:
			o := map[string]any{}
			for k, e := range t {
				o[k] = conv(e)
			}
			return o
		case map[any]any:
			o := map[string]any{}
			for k, e := range t {
				o[fmt.Sprint(k)] = conv(e)
			}
			return o
		case []any:
			o := make([]any, len(t))
			for i, e := range t {
				o[i] = conv(e)
			}
			return o
		case int:
			return float64(t)
		case int64:
			return float64(t)
		case uint64:
			return float64(t)
		case time.Time:
			return t.Format(time.RFC3339)
		}
		return x
	}
	return conv(v)
}
