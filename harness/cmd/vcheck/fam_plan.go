package main

// Family "plan" (property C05, and the planning half of C01/C08/C13): drives
// files.PrepareForPackager / nfpm.PrepareForPackager on every PREFIX of a raw
// content list, so that the trace carries one observation per raw entry - the
// same grain as the Step action of spec/Plan.tla.

import (
	"errors"
	"fmt"
	"io/fs"
	"math/rand"
	"os"
	"path/filepath"
	"reflect"
	"sort"
	"strings"
	"sync/atomic"
	"time"

	"github.com/goreleaser/nfpm/v2"
	"github.com/goreleaser/nfpm/v2/files"
)

type Fi struct {
	Owner string
	Group string
	Mode  int
	Mt    int
}

type Entry struct {
	Type   string
	Src    string // pattern relative to the source root ("" = none); symlink: literal target
	Dst    string // raw spelling
	Tag    string
	Fi     Fi
	HasFi  bool
	Abs    bool // Src is used as given (symlink target etc.), not joined to the root
	Expand bool // expand: true in the YAML (no reference in the generated values: must change nothing)
}

func (e Entry) M() M {
	return M{"type": e.Type, "src": e.Src, "dst": e.Dst, "tag": e.Tag,
		"fi": M{"owner": e.Fi.Owner, "group": e.Fi.Group, "mode": e.Fi.Mode, "mt": e.Fi.Mt}}
}

func entriesM(es []Entry) []M {
	out := make([]M, 0, len(es))
	for _, e := range es {
		out = append(out, e.M())
	}
	return out
}

func srcIsPath(t string) bool {
	switch t {
	case "file", "", "config", "config|noreplace", "config|missingok", "tree", "doc", "licence", "license", "readme", "debian changelog":
		return true
	}
	return false
}

// toContents builds fresh nfpm content values (never shared between calls).
func toContents(root string, es []Entry) files.Contents {
	var out files.Contents
	for _, e := range es {
		c := &files.Content{Type: e.Type, Destination: e.Dst, Packager: e.Tag}
		if e.Src != "" {
			if srcIsPath(e.Type) && !e.Abs {
				c.Source = root + "/" + e.Src
			} else {
				c.Source = e.Src
			}
		}
		if e.HasFi || e.Fi != (Fi{}) {
			c.FileInfo = &files.ContentFileInfo{Owner: e.Fi.Owner, Group: e.Fi.Group, Mode: os.FileMode(e.Fi.Mode)}
			if e.Fi.Mt != 0 {
				c.FileInfo.MTime = time.Unix(int64(e.Fi.Mt), 0).UTC()
			}
		}
		out = append(out, c)
	}
	return out
}

func permBits(m fs.FileMode) int {
	v := int(m.Perm())
	if m&fs.ModeSetuid != 0 {
		v |= 0o4000
	}
	if m&fs.ModeSetgid != 0 {
		v |= 0o2000
	}
	if m&fs.ModeSticky != 0 {
		v |= 0o1000
	}
	// a mode given numerically in file_info (e.g. 04755) keeps its raw bits
	v |= int(uint32(m) & 0o7000)
	return v
}

func unixOrZero(t time.Time) int {
	if t.IsZero() {
		return 0
	}
	return int(t.Unix())
}

func planEntryM(root string, c *files.Content) M {
	src := c.Source
	if root != "" && strings.HasPrefix(src, root+"/") {
		src = src[len(root)+1:]
	}
	m := M{"dst": c.Destination, "type": c.Type, "src": src, "tag": c.Packager,
		"owner": "", "group": "", "mode": 0, "mt": 0, "size": 0, "mtype": ""}
	if c.FileInfo != nil {
		m["owner"] = c.FileInfo.Owner
		m["group"] = c.FileInfo.Group
		m["mode"] = permBits(c.FileInfo.Mode)
		m["mt"] = unixOrZero(c.FileInfo.MTime)
		sz := c.FileInfo.Size
		if sz >= 1<<31 {
			sz = 1<<31 - 1
		}
		m["size"] = int(sz)
		m["mtype"] = strings.TrimRight(c.FileInfo.Mode.Type().String(), "-")
	}
	return m
}

func classifyPlanErr(err error) string {
	switch {
	case err == nil:
		return "run"
	case errors.Is(err, files.ErrContentCollision):
		return "collision"
	case errors.Is(err, os.ErrNotExist), strings.Contains(err.Error(), "no matching files"):
		return "nomatch"
	case strings.Contains(err.Error(), "invalid content type"):
		return "invalid"
	}
	return "other"
}

type PlanCase struct {
	ID        int
	Pk        string
	Umask     int
	NoGlob    bool
	Pmt       int
	TreeID    string
	TreeNodes []M
	Root      string
	Entries   []Entry
	Family    string
}

func planOnce(pc *PlanCase, k int) (string, string, []M) {
	var mt time.Time
	if pc.Pmt != 0 {
		mt = time.Unix(int64(pc.Pmt), 0).UTC()
	}
	res, err := files.PrepareForPackager(toContents(pc.Root, pc.Entries[:k]), fs.FileMode(pc.Umask), pc.Pk, pc.NoGlob, mt)
	st := classifyPlanErr(err)
	msg := ""
	if err != nil {
		msg = err.Error()
		return st, msg, []M{}
	}
	out := make([]M, 0, len(res))
	for _, c := range res {
		out = append(out, planEntryM(pc.Root, c))
	}
	return st, msg, out
}

// planViaConfig plans the same list the way a user of the configuration file gets it: the list is the `contents` of a parsed
// configuration that also has an override block (touching other fields) for every format, the effective settings are asked for
// every other format first and for pc.Pk last, and that Info is prepared for pc.Pk.  "agrees" / "differs" / "skipped" (the
// configuration as a whole is not valid, e.g. the list collides for another format).
func planViaConfig(pc *PlanCase, direct []M) string {
	c := baseCfg("viaconfig")
	c.Entries = pc.Entries
	c.Umask, c.NoGlob, c.Pmt = pc.Umask, pc.NoGlob, pc.Pmt
	y := c.YAML(pc.Root) + "overrides:\n"
	for _, f := range allFormats {
		y += "  " + f + ":\n    depends:\n      - dep-" + f + "\n"
	}
	cfg, err := parseCfg(y)
	if err != nil {
		return "skipped"
	}
	for _, f := range allFormats {
		if f != pc.Pk {
			if _, err := cfg.Get(f); err != nil {
				return "skipped"
			}
		}
	}
	info, err := cfg.Get(pc.Pk)
	if err != nil {
		return "differs"
	}
	if err := nfpm.PrepareForPackager(info, pc.Pk); err != nil {
		return "differs"
	}
	got := make([]M, 0, len(info.Contents))
	for _, cc := range info.Contents {
		got = append(got, planEntryM(pc.Root, cc))
	}
	if reflect.DeepEqual(direct, got) {
		return "agrees"
	}
	return "differs"
}

var nViaConfig int64

func runPlanCase(tr *Trace, pc *PlanCase) {
	evs := []M{{"ev": "case", "id": pc.ID, "fam": pc.Family, "pk": pc.Pk, "umask": pc.Umask, "noglob": pc.NoGlob,
		"pmt": pc.Pmt, "tree": pc.TreeNodes, "entries": entriesM(pc.Entries)}}
	for k := 1; k <= len(pc.Entries); k++ {
		st, msg, plan := planOnce(pc, k)
		stable := true
		for rep := 0; rep < 3; rep++ {
			st2, _, plan2 := planOnce(pc, k)
			if st2 != st || !reflect.DeepEqual(plan, plan2) {
				stable = false
			}
		}
		facade := true
		if k == len(pc.Entries) {
			info := &nfpm.Info{Name: "x", Arch: "amd64", Version: "1.0.0"}
			info.Contents = toContents(pc.Root, pc.Entries)
			info.Umask = fs.FileMode(pc.Umask)
			info.DisableGlobbing = pc.NoGlob
			if pc.Pmt != 0 {
				info.MTime = time.Unix(int64(pc.Pmt), 0).UTC()
			}
			err := nfpm.PrepareForPackager(info, pc.Pk)
			st3 := classifyPlanErr(err)
			if st3 != st {
				facade = false
			} else if err == nil {
				p3 := make([]M, 0, len(info.Contents))
				for _, c := range info.Contents {
					p3 = append(p3, planEntryM(pc.Root, c))
				}
				facade = reflect.DeepEqual(plan, p3)
			}
		}
		viaconfig := "skipped"
		if k == len(pc.Entries) && st == "run" && pc.Pk != "" && pc.Umask != 0 {
			viaconfig = planViaConfig(pc, plan)
			if viaconfig != "skipped" {
				atomic.AddInt64(&nViaConfig, 1)
			}
		}
		evs = append(evs, M{"ev": "step", "k": k, "status": st, "msg": safeStr(strings.ReplaceAll(msg, pc.Root, "$ROOT")), "plan": plan, "stable": stable, "facade": facade,
			"viaconfig": viaconfig})
		if st != "run" {
			break
		}
	}
	evs = append(evs, M{"ev": "endcase"})
	tr.Emit(pc.ID, evs)
}

// ---------------------------------------------------------------------------
// the bounded universe (mirrors spec/MC_Plan.tla)
// ---------------------------------------------------------------------------

func mcTree() []Node {
	f := func(p string, mode, size int) Node {
		b := fileBytes(int64(len(p)*131+size), size)
		return Node{P: p, Kind: "file", Mode: mode, Mt: 1500000000, Size: size, data: b, Cid: cidOf(b)}
	}
	d := func(p string, mode int) Node { return Node{P: p, Kind: "dir", Mode: mode, Mt: 1500000000} }
	return []Node{
		d("s", 0o755), f("s/f1", 0o644, 3), f("s/f2.conf", 0o600, 5),
		d("s/d", 0o700), f("s/d/g1", 0o755, 7),
		{P: "s/lnk", Kind: "link", Mode: 0o777, Mt: 1500000000, Link: "f1", Tk: "file"},
		d("t", 0o755), f("t/f1", 0o644, 4),
	}
}

type shape struct{ typ, src string }

func planUniverse(full bool) (shapes []shape, dsts, tags []string, fis []Fi) {
	if full {
		shapes = []shape{{"file", "s/f1"}, {"file", "s"}, {"file", "s/*.conf"}, {"file", "t/f1"}, {"config", "s/f2.conf"},
			{"dir", ""}, {"symlink", "tgt"}, {"tree", "s"}, {"ghost", ""}, {"file", "s/d"}}
		fis = []Fi{{}, {"u", "g", 0o4755, 1400000000}}
	} else {
		shapes = []shape{{"file", "s/f1"}, {"file", "s/d"}, {"dir", ""}, {"symlink", "tgt"}, {"tree", "s/d"}, {"ghost", ""}}
		fis = []Fi{{}}
	}
	dsts = []string{"/a", "/a/b", "/a/b/", "a/d/", "/e/../a", "../a/b/c"}
	tags = []string{"", "deb", "rpm"}
	return
}

func planOptions(full bool, ndst, ntag int) []Entry {
	shapes, dsts, tags, fis := planUniverse(full)
	if ndst > 0 && ndst < len(dsts) {
		dsts = dsts[:ndst]
	}
	if ntag > 0 && ntag < len(tags) {
		tags = tags[:ntag]
	}
	var out []Entry
	for _, sh := range shapes {
		for _, d := range dsts {
			for _, t := range tags {
				for _, fi := range fis {
					out = append(out, Entry{Type: sh.typ, Src: sh.src, Dst: d, Tag: t, Fi: fi})
				}
			}
		}
	}
	return out
}

func famPlan(tr *Trace, scratch string, seed int64, tier string, workers int) M {
	root := filepath.Join(scratch, "plan-mc")
	tree := mcTree()
	Materialise(root, tree)

	var cases []*PlanCase
	id := 0
	treeM := map[string][]M{"MC": nodesM(tree)}
	add := func(fam, pk string, noglob bool, umask, pmt int, treeID, rt string, es []Entry) {
		id++
		cases = append(cases, &PlanCase{ID: id, Pk: pk, Umask: umask, NoGlob: noglob, Pmt: pmt, TreeID: treeID, TreeNodes: treeM[treeID], Root: rt, Entries: es, Family: fam})
	}
	pks := []string{"deb", "rpm", "apk"}

	// (1) bounded-exhaustive lists
	maxLen := envInt("VERIF_PLAN_MAXLEN", 2)
	full := false
	ndst, ntag := 4, 2
	if tier == "thorough" {
		ndst, ntag = 6, 3
	}
	if v := os.Getenv("VERIF_PLAN_FULL"); v == "1" || (tier == "thorough" && v != "0") {
		full = true // the universe of MC_Plan_full.cfg: 10 shapes x 6 destinations x 3 tags x 2 file_info variants
	}
	opts := planOptions(full, ndst, ntag)
	var rec func(prefix []Entry)
	rec = func(prefix []Entry) {
		if len(prefix) > 0 {
			for _, pk := range pks {
				add("exh", pk, false, 0o22, 1600000000, "MC", root, append([]Entry(nil), prefix...))
			}
		}
		if len(prefix) == maxLen {
			return
		}
		for _, o := range opts {
			rec(append(prefix, o))
		}
	}
	rec(nil)
	nExh := len(cases)

	// (1b) lists of three over a reduced option set
	if tier == "thorough" || envInt("VERIF_PLAN_TRIPLES", 0) == 1 {
		o3 := planOptions(false, 3, 1)
		for _, a := range o3 {
			for _, b := range o3 {
				for _, c := range o3 {
					for _, pk := range pks {
						add("exh3", pk, false, 0o22, 1600000000, "MC", root, []Entry{a, b, c})
					}
				}
			}
		}
	}
	nExh3 := len(cases) - nExh

	// (2) destination spellings, exhaustively up to a token bound
	toks := []string{"a", "b", ".", "..", ""}
	maxTok := 3
	if tier == "thorough" {
		maxTok = 4
	}
	var spell []string
	var recs func(cur []string)
	recs = func(cur []string) {
		if len(cur) > 0 {
			s := strings.Join(cur, "/")
			spell = append(spell, s, "/"+s, s+"/", "/"+s+"/")
		}
		if len(cur) == maxTok {
			return
		}
		for _, t := range toks {
			recs(append(cur, t))
		}
	}
	recs(nil)
	if os.Getenv("VERIF_PLAN_SPELLINGS") == "0" { // (the binding self-test works on a small trace)
		spell = nil
	}
	nSpell := 0
	for _, s := range spell {
		for _, sh := range []shape{{"file", "s/f1"}, {"dir", ""}, {"symlink", "tgt"}, {"file", "s/d"}, {"file", "s"}} { // ("s": a directory with a subdirectory)
			// a spelling that denotes the root itself is not a destination
			es := []Entry{{Type: sh.typ, Src: sh.src, Dst: s}}
			add("spell", "deb", false, 0o22, 1600000000, "MC", root, es)
			nSpell++
			if sh.typ == "file" { // the same with globbing disabled: the source is taken literally, the destination rules are the same
				add("spell", "deb", true, 0o22, 1600000000, "MC", root, es)
				nSpell++
			}
		}
	}
	// two-entry spellings: the same path spelled two ways must collide
	for i := 0; i < len(spell); i += 7 {
		for j := 3; j < len(spell); j += 11 {
			es := []Entry{{Type: "file", Src: "s/f1", Dst: spell[i]}, {Type: "symlink", Src: "tgt", Dst: spell[j]}}
			add("spell2", "rpm", false, 0o22, 1600000000, "MC", root, es)
			nSpell++
		}
	}

	// (2b) glob shapes: sibling directories whose names are prefixes of one
	// another, matches at different depths, single matches - the cases in
	// which "deepest common directory" and "longest common string prefix"
	// differ.
	nGlobx := 0
	{
		subdirs := []string{"con", "conf", "conf.d", "confx/deep"}
		pats := []string{"g/*/*.cfg", "g/*/*", "g/c*/*.cfg", "g/conf*/m*", "g", "g/conf", "g/*", "g/conf/m.cfg", "g/*/m.cfg", "g/conf*",
			// classes, alternatives, ** and single-character wildcards
			"g/{con,conf}/*.cfg", "g/c[o]n*/*", "g/**/m.cfg", "g/**", "g/conf?d/*", "g/[!c]*", "g/con[a-f]/*", "g/**/*.cfg", "g/{conf.d,confx}/**", "g/*/rea?me", "g/con{,f}/m.cfg"}
		for mask := 1; mask < 1<<len(subdirs); mask++ {
			var nodes []Node
			nodes = append(nodes, Node{P: "g", Kind: "dir", Mode: 0o755, Mt: 1500000000})
			seenDir := map[string]bool{}
			for i, sd := range subdirs {
				if mask&(1<<i) == 0 {
					continue
				}
				parts := strings.Split(sd, "/")
				cur := "g"
				for _, pp := range parts {
					cur += "/" + pp
					if !seenDir[cur] {
						seenDir[cur] = true
						nodes = append(nodes, Node{P: cur, Kind: "dir", Mode: 0o755, Mt: 1500000000})
					}
				}
				for j, fn := range []string{"m.cfg", "x.cfg", "readme"} {
					if (i+j)%3 == 2 {
						continue
					}
					b := fileBytes(int64(i*7+j), 3+i+j)
					nodes = append(nodes, Node{P: "g/" + sd + "/" + fn, Kind: "file", Mode: 0o644, Mt: 1500000000, Size: len(b), data: b, Cid: cidOf(b)})
				}
			}
			tid := fmt.Sprintf("G%d", mask)
			rt := filepath.Join(scratch, "plan-g", tid)
			Materialise(rt, nodes)
			treeM[tid] = nodesM(nodes)
			for _, pat := range pats {
				for _, d := range []string{"/etc/app", "/etc/app/"} {
					add("globx", "deb", false, 0o22, 1600000000, tid, rt, []Entry{{Type: "file", Src: pat, Dst: d}})
					nGlobx++
				}
			}
		}
	}

	// (2c) directories owned by the distribution (files/fs.go): trees into /etc, /usr (with a bin/ inside), a symlink or
	// file sitting where the tree has a directory, declared owner on such a tree, relative spelling of the destination
	nFs := 0
	{
		mkf := func(p string, mode int, body string) Node {
			b := []byte(body)
			return Node{P: p, Kind: "file", Mode: mode, Mt: 1500000000, Size: len(b), data: b, Cid: cidOf(b)}
		}
		nodes := []Node{{P: "r", Kind: "dir", Mode: 0o755, Mt: 1500000000}, {P: "r/bin", Kind: "dir", Mode: 0o750, Mt: 1500000001}, mkf("r/bin/tool", 0o755, "x"),
			{P: "r/lib64", Kind: "dir", Mode: 0o755, Mt: 1500000002}, mkf("r/lib64/l.so", 0o644, "so"), {P: "r/share", Kind: "dir", Mode: 0o775, Mt: 1500000003},
			mkf("r/share/doc.txt", 0o644, "doc"), {P: "e", Kind: "dir", Mode: 0o700, Mt: 1500000004}, mkf("e/app.conf", 0o600, "k=v")}
		rt := filepath.Join(scratch, "plan-fs")
		Materialise(rt, nodes)
		treeM["FS"] = nodesM(nodes)
		own := Fi{Owner: "app", Group: "grp"}
		lists := [][]Entry{
			{{Type: "tree", Src: "r", Dst: "/usr"}},
			{{Type: "tree", Src: "r", Dst: "/usr", Fi: own, HasFi: true}},
			{{Type: "tree", Src: "r", Dst: "/opt/x", Fi: own, HasFi: true}},
			{{Type: "tree", Src: "e", Dst: "/etc"}},
			{{Type: "tree", Src: "e", Dst: "etc", Fi: own, HasFi: true}},
			{{Type: "tree", Src: "e", Dst: "/etc/", Fi: own, HasFi: true}},
			{{Type: "symlink", Src: "lib", Dst: "/usr/lib64"}, {Type: "tree", Src: "r", Dst: "/usr"}},
			{{Type: "file", Src: "e/app.conf", Dst: "/usr/bin"}, {Type: "tree", Src: "r", Dst: "/usr"}},
			{{Type: "dir", Dst: "/usr/bin", Fi: own, HasFi: true}, {Type: "tree", Src: "r", Dst: "/usr"}},
			{{Type: "tree", Src: "r", Dst: "/usr"}, {Type: "dir", Dst: "/usr/bin", Fi: own, HasFi: true}},
			{{Type: "file", Src: "e/app.conf", Dst: "/usr/bin/x"}, {Type: "tree", Src: "r", Dst: "/usr"}},
			{{Type: "file", Src: "e/app.conf", Dst: "/opt/x/share/extra"}, {Type: "tree", Src: "r", Dst: "/opt/x"}},
			{{Type: "tree", Src: "r", Dst: "/opt/x"}, {Type: "file", Src: "e/app.conf", Dst: "/opt/x/share/extra"}},
			{{Type: "tree", Src: "r", Dst: "/usr"}, {Type: "tree", Src: "r", Dst: "/usr"}},
			{{Type: "tree", Src: "r", Dst: "/usr"}, {Type: "tree", Src: "e", Dst: "/usr/bin"}},
			// declared directories at paths the distribution owns stay declared directories
			{{Type: "dir", Dst: "/var/cache", Fi: own, HasFi: true}},
			{{Type: "dir", Dst: "/opt"}, {Type: "dir", Dst: "/usr/local/bin", Fi: own, HasFi: true}, {Type: "file", Src: "e/app.conf", Dst: "/usr/local/bin/x"}},
			{{Type: "file", Src: "e/app.conf", Dst: "/etc/x/y"}, {Type: "dir", Dst: "/etc"}},
			// a tree / a directory whose destination is the root itself
			{{Type: "tree", Src: "r", Dst: "/"}},
			{{Type: "tree", Src: "r", Dst: ""}, {Type: "file", Src: "e/app.conf", Dst: "/share/extra"}},
			{{Type: "dir", Dst: "/", Fi: own, HasFi: true}, {Type: "file", Src: "e/app.conf", Dst: "/x"}},
			{{Type: "tree", Src: "r", Dst: "/"}, {Type: "tree", Src: "e", Dst: "/."}},
			// a declared directory that a later tree also brings (not a distribution-owned path), both orders
			{{Type: "dir", Dst: "/opt/x/share", Fi: own, HasFi: true}, {Type: "tree", Src: "r", Dst: "/opt/x"}},
			{{Type: "tree", Src: "r", Dst: "/opt/x"}, {Type: "dir", Dst: "/opt/x/share", Fi: own, HasFi: true}},
			{{Type: "tree", Src: "r", Dst: "/opt/x"}, {Type: "tree", Src: "r", Dst: "/opt/x/"}},
		}
		for _, l := range lists {
			for _, pk := range []string{"deb", "rpm"} {
				add("fsowned", pk, false, 0o22, 1600000000, "FS", rt, l)
				nFs++
			}
		}
	}

	// (2d) destinations that differ only in letter case (distinct paths; the order must be the same on every call), listed in
	// both orders, alone and among other entries
	nCase := 0
	for _, pair := range [][2]string{{"/usr/share/doc/README", "/usr/share/doc/readme"}, {"/opt/Makefile", "/opt/makefile"}, {"/etc/App/a.conf", "/etc/app/a.conf"},
		{"/usr/share/X", "/usr/share/x"}} {
		for _, pk := range []string{"deb", "rpm", "archlinux"} {
			for _, flip := range []bool{false, true} {
				a, b := pair[0], pair[1]
				if flip {
					a, b = b, a
				}
				add("case", pk, false, 0o22, 1600000000, "MC", root, []Entry{{Type: "file", Src: "s/f1", Dst: a}, {Type: "file", Src: "s/f2.conf", Dst: b}})
				add("case", pk, false, 0o22, 1600000000, "MC", root, []Entry{{Type: "file", Src: "s/f1", Dst: "/usr/bin/zz"}, {Type: "file", Src: "s/f1", Dst: a},
					{Type: "symlink", Src: "tgt", Dst: "/usr/share/LINK"}, {Type: "file", Src: "s/f2.conf", Dst: b}, {Type: "symlink", Src: "tgt", Dst: "/usr/share/link"}})
				nCase += 2
			}
		}
	}

	// (3) random lists over random trees
	nRand := 150
	if tier == "thorough" {
		nRand = 3000
	}
	nRand = envInt("VERIF_PLAN_RANDOM", nRand)
	rng := rand.New(rand.NewSource(seed))
	for i := 0; i < nRand; i++ {
		noglob := rng.Intn(5) == 0
		tid := fmt.Sprintf("R%d", i)
		rt := filepath.Join(scratch, "plan-r", tid)
		nodes := randomTree(rng, noglob)
		Materialise(rt, nodes)
		treeM[tid] = nodesM(nodes)
		es := randomEntries(rng, nodes, noglob, 1+rng.Intn(8))
		umask := []int{0, 0o02, 0o22, 0o27, 0o77}[rng.Intn(5)]
		pmt := []int{0, 1600000000}[rng.Intn(2)]
		pk := []string{"deb", "rpm", "apk", "archlinux", "ipk", ""}[rng.Intn(6)]
		add("rand", pk, noglob, umask, pmt, tid, rt, es)
	}

	// (4) Validate: it reports an error iff the list cannot be planned for at least one registered packager - including
	// the packagers for which only a format-specific entry type collides - and it does so on every call
	nVal := 0
	{
		vl := [][]Entry{
			{{Type: "file", Src: "s/f1", Dst: "/a/x"}, {Type: "ghost", Dst: "/a/x"}}, // collides for rpm only
			{{Type: "ghost", Dst: "/a/x"}, {Type: "file", Src: "s/f1", Dst: "/a/x"}},
			{{Type: "doc", Src: "s/f1", Dst: "/a/doc"}, {Type: "symlink", Src: "tgt", Dst: "/a/doc"}},                         // rpm only
			{{Type: "file", Src: "s/f1", Dst: "/a/x", Tag: "apk"}, {Type: "file", Src: "s/f2.conf", Dst: "/a/x", Tag: "apk"}}, // apk only
			{{Type: "file", Src: "s/f1", Dst: "/a/x", Tag: "ipk"}, {Type: "dir", Dst: "/a/x", Tag: "ipk"}},                    // ipk only
			{{Type: "file", Src: "s/f1", Dst: "/a/x", Tag: "deb"}, {Type: "file", Src: "s/f2.conf", Dst: "/a/x", Tag: "rpm"}}, // nowhere
			{{Type: "file", Src: "s/f1", Dst: "/a/x"}, {Type: "licence", Src: "s/f1", Dst: "/a/y"}},                           // nowhere
			{{Type: "readme", Src: "s/f1", Dst: "/a/x"}, {Type: "ghost", Dst: "/a/x/below"}},                                  // rpm only: beneath a file
			{{Type: "file", Src: "s/f1", Dst: "/a/x", Tag: "archlinux"}, {Type: "symlink", Src: "tgt", Dst: "/a/x", Tag: "archlinux"}},
			{{Type: "file", Src: "s/nope", Dst: "/a/x", Tag: "rpm"}}, // no match, rpm only
			{{Type: "file", Src: "s/f1", Dst: "/a/x"}},
		}
		for _, es := range vl {
			id++
			nVal++
			nerr := 0
			const reps = 16
			for r := 0; r < reps; r++ {
				info := &nfpm.Info{Name: "x", Arch: "amd64", Version: "1.0.0"}
				info.Contents = toContents(root, es)
				info.Umask = 0o22
				if nfpm.Validate(info) != nil {
					nerr++
				}
			}
			tr.Emit(id, []M{{"ev": "case", "id": id, "fam": "validate", "pk": "", "umask": 0o22, "noglob": false, "pmt": 0, "tree": treeM["MC"], "entries": entriesM(es)},
				{"ev": "validate", "calls": reps, "errors": nerr}, {"ev": "endcase"}})
		}
	}
	parallel(len(cases), workers, func(i int) { runPlanCase(tr, cases[i]) })
	// (cwd) sources given relative to the WORKING DIRECTORY itself (`src: "*"`, `".*"`, `"."`), hidden names among the
	// matches: the process changes into the tree, so these run one at a time after everything else
	nCwd := 0
	{
		mkf := func(p, body string) Node {
			b := []byte(body)
			return Node{P: p, Kind: "file", Mode: 0o644, Mt: 1500000000, Size: len(b), data: b, Cid: cidOf(b)}
		}
		nodes := []Node{mkf(".env", "A=1\n"), {P: ".config", Kind: "dir", Mode: 0o755, Mt: 1500000000}, mkf(".config/settings", "s\n"), mkf("plain.txt", "p\n"),
			{P: "sub", Kind: "dir", Mode: 0o755, Mt: 1500000000}, mkf("sub/.hidden", "h\n"), mkf("sub/seen", "v\n")}
		rt := filepath.Join(scratch, "plan-cwd")
		Materialise(rt, nodes)
		treeM["CWD"] = nodesM(nodes)
		wd, werr := os.Getwd()
		if werr == nil && os.Chdir(rt) == nil {
			var cw []*PlanCase
			for _, pk := range pks {
				// (not ".*" and ".": the glob library lets both match the working directory itself - the whole tree -, which
				// the tree model has no node for)
				for _, pat := range []string{"*", ".env", ".config", "sub", "sub/*", "./sub", "./.env", "*/.hidden", ".config/*"} {
					for _, dst := range []string{"/opt/cwdapp", "/opt/cwdapp/"} {
						for _, ty := range []string{"file", "config"} {
							id++
							cw = append(cw, &PlanCase{ID: id, Pk: pk, Umask: 0, NoGlob: false, Pmt: 1600000000, TreeID: "CWD", TreeNodes: treeM["CWD"], Root: rt,
								Entries: []Entry{{Type: ty, Src: pat, Dst: dst, Abs: true}}, Family: "cwd"})
						}
					}
				}
			}
			for _, pc := range cw {
				runPlanCase(tr, pc)
				nCwd++
			}
			cases = append(cases, cw...)
			must(os.Chdir(wd))
		}
	}
	for _, pc := range cases {
		if pc.Family == "rand" || pc.ID%97 == 0 {
			tr.Index(pc.ID, M{"pk": pc.Pk, "umask": pc.Umask, "noglob": pc.NoGlob, "pmt": pc.Pmt, "tree": pc.TreeID, "entries": entriesM(pc.Entries), "fam": pc.Family})
		}
	}
	return M{"cases": len(cases), "exhaustive_lists": nExh, "exhaustive_triples": nExh3, "spellings": nSpell, "globshapes": nGlobx, "fsowned": nFs, "case_pairs": nCase, "validate_lists": nVal, "via_config": int(atomic.LoadInt64(&nViaConfig)), "random": nRand,
		"options": len(opts), "maxlen": maxLen, "cwd_relative": nCwd}
}

// ---------------------------------------------------------------------------
// random trees and lists
// ---------------------------------------------------------------------------

var plainNames = []string{"a", "b", "bin", "conf", "conf.d", "x.txt", "y.txt", "z.conf", "app", "app.conf", "lib", "data", "with space", "UPPER", "f-1", "f_2"}
var metaNames = []string{"br[ack]et", "st*ar", "q?mark", "{brace}", "back\\slash"}

func randomTree(rng *rand.Rand, meta bool) []Node {
	var nodes []Node
	seen := map[string]bool{}
	names := plainNames
	if meta {
		names = append(append([]string{}, plainNames...), metaNames...)
	}
	mt := func() int { return 1300000000 + rng.Intn(100000000) }
	var build func(dir string, depth int)
	build = func(dir string, depth int) {
		n := 1 + rng.Intn(4)
		for i := 0; i < n; i++ {
			nm := names[rng.Intn(len(names))]
			p := nm
			if dir != "" {
				p = dir + "/" + nm
			}
			if seen[p] {
				continue
			}
			seen[p] = true
			switch r := rng.Intn(10); {
			case r < 3 && depth < 3:
				nodes = append(nodes, Node{P: p, Kind: "dir", Mode: []int{0o755, 0o700, 0o775, 0o750}[rng.Intn(4)], Mt: mt()})
				build(p, depth+1)
			case r == 3:
				// a link; target kind decided below
				tk := []string{"file", "none"}[rng.Intn(2)]
				tgt := []string{"nonexistent-target", "./rel/../unclean-target", "dir/"}[rng.Intn(3)]
				if tk == "file" {
					tgt = "/etc/hostname"
					if _, err := os.Stat(tgt); err != nil {
						tk = "none"
					}
				}
				nodes = append(nodes, Node{P: p, Kind: "link", Mode: 0o777, Mt: 0, Link: tgt, Tk: tk})
			default:
				size := []int{0, 1, 7, 100, 4096, 70000}[rng.Intn(6)]
				b := fileBytes(rng.Int63(), size)
				nodes = append(nodes, Node{P: p, Kind: "file", Mode: []int{0o644, 0o600, 0o755, 0o664, 0o640, 0o444}[rng.Intn(6)], Mt: mt(), Size: size, data: b, Cid: cidOf(b)})
			}
		}
	}
	nodes = append(nodes, Node{P: "src", Kind: "dir", Mode: 0o755, Mt: mt()})
	build("src", 1)
	hasFile := false
	for _, n := range nodes {
		if n.Kind == "file" {
			hasFile = true
		}
	}
	if !hasFile {
		b := fileBytes(rng.Int63(), 9)
		nodes = append(nodes, Node{P: "src/only", Kind: "file", Mode: 0o644, Mt: mt(), Size: 9, data: b, Cid: cidOf(b)})
	}
	return nodes
}

var dstDirs = []string{"/usr/share/app", "/opt/app", "/var/lib/app", "/etc/app", "/srv/app/data", "/usr/share/app/sub", "/opt/app/bin"}

func randomDst(rng *rand.Rand) string {
	d := dstDirs[rng.Intn(len(dstDirs))]
	switch rng.Intn(8) {
	case 0:
		return strings.TrimPrefix(d, "/")
	case 1:
		return d + "/./x/.."
	case 2:
		return strings.Replace(d, "/", "//", 1)
	}
	return d
}

func randomFi(rng *rand.Rand) (Fi, bool) {
	if rng.Intn(2) == 0 {
		return Fi{}, false
	}
	fi := Fi{}
	if rng.Intn(2) == 0 {
		fi.Owner = []string{"app", "daemon", "root"}[rng.Intn(3)]
	}
	if rng.Intn(2) == 0 {
		fi.Group = []string{"app", "adm", "root"}[rng.Intn(3)]
	}
	if rng.Intn(2) == 0 {
		fi.Mode = []int{0o644, 0o600, 0o755, 0o4755, 0o2755, 0o1777, 0o400}[rng.Intn(7)]
	}
	if rng.Intn(3) == 0 {
		fi.Mt = 1200000000 + rng.Intn(50000000)
	}
	return fi, true
}

func randomEntries(rng *rand.Rand, nodes []Node, noglob bool, n int) []Entry {
	var filesN, dirsN []Node
	for _, nd := range nodes {
		switch nd.Kind {
		case "file":
			filesN = append(filesN, nd)
		case "dir":
			dirsN = append(dirsN, nd)
		}
	}
	sort.Slice(filesN, func(i, j int) bool { return filesN[i].P < filesN[j].P })
	tags := []string{"", "", "", "deb", "rpm", "apk", "archlinux", "ipk"}
	var es []Entry
	for i := 0; i < n; i++ {
		fi, has := randomFi(rng)
		e := Entry{Tag: tags[rng.Intn(len(tags))], Fi: fi, HasFi: has}
		switch r := rng.Intn(20); {
		case r < 6: // single file, exact destination or into a directory
			f := filesN[rng.Intn(len(filesN))]
			e.Type = []string{"file", "", "config", "config|noreplace", "config|missingok"}[rng.Intn(5)]
			e.Src = f.P
			e.Dst = randomDst(rng) + "/" + filepath.Base(f.P)
			if rng.Intn(3) == 0 {
				e.Dst = randomDst(rng) + "/"
			}
		case r < 9: // a directory
			d := dirsN[rng.Intn(len(dirsN))]
			e.Type = []string{"file", "config"}[rng.Intn(2)]
			e.Src = d.P
			e.Dst = randomDst(rng)
			if rng.Intn(4) == 0 {
				e.Dst += "/"
			}
		case r < 11 && !noglob: // a glob
			d := dirsN[rng.Intn(len(dirsN))]
			e.Type = "file"
			e.Src = d.P + "/" + []string{"*", "*.txt", "*.conf", "a*", "?", "*/*"}[rng.Intn(6)]
			e.Dst = randomDst(rng)
		case r < 13:
			d := dirsN[rng.Intn(len(dirsN))]
			e.Type = "tree"
			e.Src = d.P
			e.Dst = randomDst(rng) + "/tree" + fmt.Sprint(rng.Intn(2))
		case r < 15:
			e.Type = "dir"
			e.Dst = randomDst(rng)
			if rng.Intn(2) == 0 {
				e.Dst += "/"
			}
		case r < 17:
			e.Type = "symlink"
			e.Src = []string{"/nonexistent/target", "relative/target", "../up"}[rng.Intn(3)]
			e.Dst = randomDst(rng) + "/" + []string{"link", "x.txt", "lnk2"}[rng.Intn(3)]
		case r < 18:
			e.Type = "ghost"
			e.Dst = randomDst(rng) + "/ghost" + fmt.Sprint(rng.Intn(2))
		default:
			f := filesN[rng.Intn(len(filesN))]
			e.Type = []string{"doc", "licence", "license", "readme"}[rng.Intn(4)]
			e.Src = f.P
			e.Dst = randomDst(rng) + "/" + e.Type + ".txt"
		}
		es = append(es, e)
	}
	return es
}
