#!/usr/bin/env python3
"""Shared machinery of bin/check: scratch handling, harness build, TLC runs
(exhaustive model checking and trace validation), known-findings matching,
evidence and replay files.  Python 3 standard library only."""
import hashlib
import json
import os
import re
import shutil
import signal
import subprocess
import sys
import tempfile
import time

VERIF = os.path.dirname(os.path.dirname(os.path.abspath(__file__)))
SPEC = os.path.join(VERIF, "spec")
HARNESS = os.path.join(VERIF, "harness")
REPO = os.environ.get("VERIF_REPO", "/repo")
JAR = "/opt/veriftools/tla/tla2tools.jar:/opt/veriftools/tla/CommunityModules-deps.jar"
NCPU = os.cpu_count() or 4

GOENV = dict(os.environ, GOFLAGS="-mod=mod", GOPROXY="off", GOSUMDB="off", GOTOOLCHAIN="local")


class Infra(Exception):
    """Infrastructure problem: exit 2, never a verdict."""


class Run:
    def __init__(self, prop, tier, seed):
        self.prop, self.tier, self.seed = prop, tier, seed
        self.t0 = time.time()
        base = os.environ.get("VERIF_SCRATCH_BASE") or tempfile.gettempdir()
        self.scratch = tempfile.mkdtemp(prefix="verif-%s-" % prop, dir=base)
        self.states = 0
        self.transitions = 0
        self.mc_runs = []
        self.traces = 0          # cases consumed by trace specs
        self.events = 0
        self.samples = []
        self.viol = []           # dicts: clause, case, obs, family
        self.drift = {}
        self.notes = []
        self.assumptions = []
        self.known_seen = []
        self.extra = {}
        self.children = []

    def cleanup(self):
        for p in self.children:
            try:
                os.killpg(p.pid, signal.SIGKILL)
            except Exception:
                pass
        if os.environ.get("VERIF_KEEP_SCRATCH") != "1":
            shutil.rmtree(self.scratch, ignore_errors=True)

    # ------------------------------------------------------------------ build
    def build_harness(self, race=False):
        out = os.path.join(self.scratch, "vcheck-race" if race else "vcheck")
        if os.path.exists(out):
            return out
        hdir = HARNESS
        if REPO != "/repo":
            # developer mode (seed sweeps): build against another checkout without touching /repo
            hdir = os.path.join(self.scratch, "harness-src")
            if not os.path.exists(hdir):
                shutil.copytree(HARNESS, hdir)
                gm = open(os.path.join(hdir, "go.mod")).read().replace("=> /repo", "=> " + REPO)
                open(os.path.join(hdir, "go.mod"), "w").write(gm)
        gosum = os.path.join(hdir, "go.sum")
        shutil.copyfile(os.path.join(REPO, "go.sum"), gosum)
        cmd = ["go", "build"] + (["-race"] if race else []) + ["-o", out, "./cmd/vcheck"]
        r = subprocess.run(cmd, cwd=hdir, env=GOENV, capture_output=True, text=True)
        if r.returncode != 0:
            raise Infra("harness build failed (does /repo still compile?):\n" + r.stdout + r.stderr)
        return out

    def build_nfpm(self):
        out = os.path.join(self.scratch, "nfpm")
        if os.path.exists(out):
            return out
        r = subprocess.run(["go", "build", "-o", out, "./cmd/nfpm"], cwd=REPO, env=GOENV, capture_output=True, text=True)
        if r.returncode != 0:
            raise Infra("nfpm build failed:\n" + r.stdout + r.stderr)
        return out

    # -------------------------------------------------------------------- TLC
    def _tlc(self, workdir, module, cfg, workers, timeout, xmx="6g", deque=False, extra=()):
        md = tempfile.mkdtemp(prefix="md-", dir=workdir)
        cmd = ["java", "-XX:+UseParallelGC", "-Xmx" + xmx, "-Xss256m"]
        if deque:
            cmd.append("-Dtlc2.tool.queue.IStateQueue=StateDeque")
        cmd += ["-cp", JAR, "tlc2.TLC", "-workers", str(workers), "-noGenerateSpecTE", "-metadir", md,
                "-config", cfg] + list(extra) + [module]
        logp = os.path.join(workdir, "tlc-%s.log" % os.path.basename(cfg))
        p = subprocess.Popen(cmd, cwd=workdir, stdout=subprocess.PIPE, stderr=subprocess.STDOUT, text=True,
                             start_new_session=True, errors="replace")
        self.children.append(p)
        lines, t0, killed = [], time.time(), False
        with open(logp, "w") as log:
            try:
                for line in p.stdout:
                    log.write(line)
                    if len(lines) < 200000:
                        lines.append(line.rstrip("\n"))
                    # a behaviour dump of a long trace is useless and huge: stop reading
                    if line.startswith("Error: The behavior up to this point is:") and "Trace_" in module:
                        killed = True
                        break
                    if time.time() - t0 > timeout:
                        killed = True
                        lines.append("TIMEOUT")
                        break
            finally:
                if killed:
                    try:
                        os.killpg(p.pid, signal.SIGKILL)
                    except Exception:
                        pass
                p.wait()
        self.children.remove(p)
        shutil.rmtree(md, ignore_errors=True)
        return p.returncode, lines, killed

    @staticmethod
    def _counts(lines):
        st = tr = 0
        for ln in lines:
            m = re.match(r"^(\d+) states generated, (\d+) distinct states found", ln)
            if m:
                tr, st = int(m.group(1)), int(m.group(2))
        return st, tr

    def specdir(self, name):
        d = os.path.join(self.scratch, name)
        os.makedirs(d, exist_ok=True)
        for f in os.listdir(SPEC):
            if f.endswith(".tla") or f.endswith(".cfg"):
                shutil.copyfile(os.path.join(SPEC, f), os.path.join(d, f))
        return d

    def model_check(self, module, cfg, expect_violation=None, workers=None, timeout=1500, deque=False, extra=()):
        """Bounded exhaustive run.  expect_violation names an invariant that
        MUST be violated (as-is regression models: the invariant is not
        vacuous and the deviation model explains the finding)."""
        d = self.specdir("mc-" + cfg.replace(".cfg", ""))
        rc, lines, killed = self._tlc(d, module + ".tla", cfg, workers or NCPU, timeout, deque=deque, extra=extra)
        st, tr = self._counts(lines)
        ok = any("Model checking completed. No error has been found." in ln for ln in lines)
        if "-simulate" in extra:   # behaviour generation: no "completed" banner
            ok = not any(ln.startswith("Error") for ln in lines) and any("traces generated" in ln or "Finished in" in ln for ln in lines)
            for ln in lines:
                m = re.match(r"^The number of states generated: (\d+)", ln)
                if m:
                    st = tr = int(m.group(1))
        violated = [ln for ln in lines if re.match(r"^Error: (Invariant|Action property|Temporal properties).*violated", ln)]
        self.last_prints = [ln for ln in lines if ln.startswith('<<"')]
        rec = {"module": module, "cfg": cfg, "states": st, "transitions": tr, "ok": ok,
               "violated": violated[:3], "expect_violation": expect_violation or ""}
        self.mc_runs.append(rec)
        self.states += st
        self.transitions += tr
        if expect_violation:
            if not any(expect_violation in v for v in violated):
                raise Infra("%s/%s: expected a violation of %s (as-is regression model), got: %s"
                            % (module, cfg, expect_violation, "\n".join(lines[-15:])))
            return rec
        if killed or not ok:
            if violated:
                # a design-level counterexample is a defect of the MODEL until reproduced on the real code
                raise Infra("%s/%s: the bounded model violates %s - model error, not a verdict\n%s"
                            % (module, cfg, violated[0], "\n".join(lines[-40:])))
            raise Infra("%s/%s: TLC failed (rc=%s)\n%s" % (module, cfg, rc, "\n".join(lines[-40:])))
        return rec

    def apalache_inductive(self, module, cinit, indinv, timeout=900, indinit=None, implies=None, actions=(), negative=None):
        """Unbounded safety with Apalache: Init => IndInv (length 0), IndInv /\\ Next => IndInv' (length 1),
        IndInv => each of `implies` (length 0), each action invariant of `actions` on every step from IndInv
        (length 1).  negative=(next, inv): with the regression step relation `next` the invariant must be
        violated from IndInv - the negative control.  Failure or absence of the tool is an infrastructure
        matter (the bounded TLC result stands on its own)."""
        if shutil.which("apalache-mc") is None:
            self.assumptions.append("apalache-mc not available: unbounded inductive check of %s skipped" % module)
            return False
        d = self.specdir("apa-" + module)
        start = indinit or indinv
        if isinstance(implies, str):
            implies = [implies]
        steps = [("Init", indinv, "0", "Next", True), (start, indinv, "1", "Next", True)]
        steps += [(start, i, "0", "Next", True) for i in (implies or [])]
        steps += [(start, a, "1", "Next", True) for a in actions]
        if negative:
            steps.append((start, negative[1], "1", negative[0], False))
        checked = []
        for init, inv, length, nxt, want_ok in steps:
            cmd = ["apalache-mc", "check"] + (["--cinit=" + cinit] if cinit else []) + ["--init=" + init, "--next=" + nxt, "--inv=" + inv,
                   "--length=" + length, "--out-dir=" + os.path.join(d, "apa-out"), module + ".tla"]
            try:
                r = subprocess.run(cmd, cwd=d, capture_output=True, text=True, timeout=timeout)
            except subprocess.TimeoutExpired:
                raise Infra("apalache timed out on %s" % module)
            if want_ok and "EXITCODE: OK" not in r.stdout:
                raise Infra("apalache: %s does not hold in %s (init=%s, length=%s):\n%s" % (inv, module, init, length, r.stdout[-1500:]))
            if not want_ok and "EXITCODE: ERROR (12)" not in r.stdout:
                raise Infra("apalache: negative control of %s did not violate %s under %s:\n%s" % (module, inv, nxt, r.stdout[-1500:]))
            checked.append({"init": init, "next": nxt, "inv": inv, "length": int(length), "expected": "holds" if want_ok else "violated"})
        self.extra.setdefault("apalache_inductive_invariants", []).append({"module": module, "invariant": indinv, "constants": cinit, "ok": True, "obligations": checked})
        return True

    def tlaps(self, module, timeout=1500):
        """Machine-checked proof (TLAPS) that an invariant is inductive for EVERY value of the constants.  Absence of the
        tool is recorded as an assumption; a failed or unfinished proof is an infrastructure matter (never a verdict)."""
        if shutil.which("tlapm") is None:
            self.assumptions.append("tlapm not available: the TLAPS proof %s was not re-checked" % module)
            return False
        d = self.specdir("tlaps-" + module)
        try:
            r = subprocess.run(["tlapm", "--threads", "16", "--cleanfp", module + ".tla"], cwd=d, capture_output=True, text=True, timeout=timeout)
        except subprocess.TimeoutExpired:
            raise Infra("tlapm timed out on %s" % module)
        out = r.stdout + r.stderr
        m = re.search(r"All (\d+) obligations? proved", out)
        if not m:
            raise Infra("tlapm: the proof in %s does not check:\n%s" % (module, out[-2000:]))
        self.extra.setdefault("tlaps_proofs", []).append({"module": module, "obligations_proved": int(m.group(1))})
        return True

    # ---------------------------------------------------------------- driver
    def drive(self, family, shards=1, extra_args=(), race=False, env=None, timeout=3000, crash_ok=False):
        vc = self.build_harness(race=race)
        out = os.path.join(self.scratch, "trace-%s" % family)
        os.makedirs(out, exist_ok=True)
        sc = os.path.join(self.scratch, "work-%s" % family)
        os.makedirs(sc, exist_ok=True)
        cmd = [vc, family, "--scratch", sc, "--out", os.path.join(out, "trace"), "--seed", str(self.seed),
               "--tier", self.tier, "--shards", str(shards)] + list(extra_args)
        e = dict(GOENV)
        e["TZ"] = "UTC"
        if env:
            e.update(env)
        try:
            r = subprocess.run(cmd, env=e, capture_output=True, text=True, timeout=timeout, errors="replace")
        except subprocess.TimeoutExpired:
            raise Infra("driver %s timed out" % family)
        crashed = r.returncode != 0 and re.search(r"^(fatal error: |panic: )", r.stderr, re.M) and "\ngoroutine " in r.stderr
        if crashed and not crash_ok and "--workers" not in cmd and family in ("pkg", "plan", "iso", "config", "fault"):
            # The driver runs its cases on several goroutines (independent configurations: allowed by C12).  A Go runtime
            # crash there is C12's business; THIS property is decided on a run with one worker.
            self.extra.setdefault("driver_crashed_with_parallel_workers", []).append({"family": family, "first": r.stderr[r.stderr.find("panic"):][:400]})
            try:
                r = subprocess.run(cmd + ["--workers", "1"], env=e, capture_output=True, text=True, timeout=timeout, errors="replace")
            except subprocess.TimeoutExpired:
                raise Infra("driver %s timed out (one worker)" % family)
            crashed = False
        if r.returncode != 0 and crash_ok and crashed:
            # a Go runtime crash of the driver process: the caller decides what it means
            shutil.rmtree(sc, ignore_errors=True)
            i = re.search(r"^(fatal error: |panic: )", r.stderr, re.M).start()
            return None, {"crash": r.stderr[i:i + 6000]}
        if r.returncode != 0:
            raise Infra("driver %s failed rc=%d:\n%s\n%s" % (family, r.returncode, r.stdout[-3000:], r.stderr[-6000:]))
        stats = {}
        for ln in r.stdout.splitlines():
            if ln.startswith("{"):
                try:
                    stats = json.loads(ln)
                except Exception:
                    pass
        shutil.rmtree(sc, ignore_errors=True)
        return out, stats

    # ------------------------------------------------------ trace validation
    def validate(self, family, trace_module, tracedir, shards, timeout=3000, cfg=None, deque=False):
        """Runs one TLC per shard (each -workers 1) in parallel and collects the
        REQ / DOC / model-error sets.  Returns list of violation dicts."""
        import concurrent.futures as cf
        cfg = cfg or (trace_module + ".cfg")
        jobs = []
        for i in range(shards):
            tf = os.path.join(tracedir, "trace.%d.ndjson" % i)
            if not os.path.exists(tf):
                raise Infra("missing trace shard " + tf)
            d = self.specdir("tv-%s-%d" % (family, i))
            shutil.move(tf, os.path.join(d, "trace.ndjson"))
            jobs.append((i, d))
        results = {}

        def one(job):
            i, d = job
            return i, d, self._tlc(d, trace_module + ".tla", cfg, 1, timeout, xmx="3g", deque=deque)

        with cf.ThreadPoolExecutor(max_workers=min(len(jobs), NCPU)) as ex:
            for i, d, (rc, lines, killed) in ex.map(one, jobs):
                results[i] = (d, rc, lines, killed)
        out = []
        for i in sorted(results):
            d, rc, lines, killed = results[i]
            st, tr = self._counts(lines)
            self.states += st
            self.transitions += tr
            tpath = os.path.join(d, "trace.ndjson")
            sets = {}
            ncases = 0
            for ln in lines:
                m = re.match(r'^<<"(VIOLSET|DRIFTSET|MERRSET)", "(.*)">>$', ln)
                if m:
                    sets[m.group(1)] = json.loads(m.group(2).replace('\\"', '"').replace("\\\\", "\\"))
                m = re.match(r'^<<"NCASES", (\d+)>>$', ln)
                if m:
                    ncases = int(m.group(1))
            ok = any("Model checking completed. No error has been found." in ln for ln in lines)
            if not ok or "VIOLSET" not in sets:
                # structural rejection or evaluation error: find how far the trace got
                hw = 0
                for ln in lines:
                    m = re.match(r"^/\\ l = (\d+)$", ln)
                    if m:
                        hw = max(hw, int(m.group(1)))
                tail = [ln for ln in lines if ln.startswith("Error") or "Exception" in ln or "evaluat" in ln][:12]
                raise Infra("trace validation of %s shard %d did not complete (rc=%s, reached line ~%d of %s)\n%s\n%s"
                            % (family, i, rc, hw, tpath, "\n".join(tail), "\n".join(lines[-12:])))
            if sets.get("MERRSET"):
                raise Infra("model error in %s shard %d: the specification's own invariant fails on a state "
                            "reconstructed from a real execution: %s (trace %s)" % (family, i, sets["MERRSET"][:5], tpath))
            self.traces += ncases
            with open(tpath, errors="replace") as f:
                tl = f.read().split("\n")
            self.events += len(tl) - 1
            if i == 0 and not self.samples_has(family):
                self.add_samples(family, tl)
            for cidv, lno, clause in sets.get("VIOLSET", []):
                out.append(self._locate(family, tl, cidv, lno, clause))
            for cidv, lno, clause in sets.get("DRIFTSET", []):
                self.drift.setdefault(family + ":" + clause, 0)
                self.drift[family + ":" + clause] += 1
        return out

    def samples_has(self, family):
        return any(s.get("family") == family for s in self.samples)

    def add_samples(self, family, tl, n=2):
        """a few actual cases of this run, abbreviated"""
        got, cur = 0, None
        for ln in tl:
            if not ln:
                continue
            if '"ev":"case"' in ln:
                if cur and got < n:
                    self.samples.append({"family": family, "events": cur})
                    got += 1
                if got >= n:
                    cur = None
                    break
                cur = [abbrev(json.loads(ln))]
            elif cur is not None and len(cur) < 6:
                cur.append(abbrev(json.loads(ln)))
        if cur and got < n:
            self.samples.append({"family": family, "events": cur})

    @staticmethod
    def _locate(family, tl, cidv, lno, clause):
        ev = json.loads(tl[lno - 1]) if 0 < lno <= len(tl) and tl[lno - 1] else {}
        i = lno - 1
        case = {}
        while i >= 0:
            if tl[i] and '"ev":"case"' in tl[i]:
                case = json.loads(tl[i])
                break
            i -= 1
        return {"family": family, "clause": clause, "case_id": cidv, "case": case, "event": ev}

    # -------------------------------------------------------- verdicts, files
    def finish(self, violations, level="model_checking", coverage_extra=None, rule=""):
        kf_path = os.path.join(VERIF, "known_findings.json")
        known = json.load(open(kf_path)) if os.path.exists(kf_path) else []
        open_kf = [k for k in known if k.get("property") == self.prop and k.get("status") == "open"]
        want = os.environ.get("VERIF_REPLAY_CLAUSE")
        if want:
            violations = [v for v in violations if v["clause"] == want]
        fresh, seen = [], {}
        for v in violations:
            k = match_known(open_kf, v)
            if k:
                seen.setdefault(k["id"], [k, 0])
                seen[k["id"]][1] += 1
            else:
                fresh.append(v)
        for kid, (k, n) in sorted(seen.items()):
            print("KNOWN-FINDING: property=%s %s [%s, %d case(s) this run]" % (self.prop, k["what"], kid, n))
            self.known_seen.append({"id": kid, "cases": n})
        # one VIOLATION line per distinct (clause, first case)
        reported = {}
        for v in fresh:
            reported.setdefault(v["clause"], v)
        rdir = os.environ.get("VERIF_REPLAY_DIR") or os.path.join(VERIF, "replay")
        os.makedirs(rdir, exist_ok=True)
        for clause, v in sorted(reported.items()):
            body = json.dumps({"property": self.prop, "clause": clause, "family": v["family"], "seed": self.seed,
                               "tier": self.tier, "case": v["case"], "observed": v["event"],
                               "explain": v.get("explain", "")}, indent=1, sort_keys=True)
            h = hashlib.sha256(body.encode()).hexdigest()[:12]
            path = os.path.join(rdir, "%s-%s.json" % (self.prop, h))
            with open(path, "w") as f:
                f.write(body)
            print("VIOLATION property=%s replay=%s clause=%s case=%s" % (self.prop, path, clause, v.get("case_id")))
        cov = {
            "states": self.states, "transitions": self.transitions,
            "traces_validated_against_impl": self.traces,
            "samples": self.samples[:6] or [{"note": "no trace family in this check"}],
            "events_validated": self.events,
            "model_checking_runs": self.mc_runs,
            "drift_doc_clauses": self.drift,
            "known_findings_seen": self.known_seen,
            "req_failures_total": len(violations),
            "req_failures_unlisted": len(fresh),
            "exhaustive": False,
            "rule": rule,
        }
        cov.update(self.extra)
        if coverage_extra:
            cov.update(coverage_extra)
        ev = {"property_id": self.prop, "tier": self.tier, "seed": self.seed, "level": level, "coverage": cov,
              "assumptions": self.assumptions, "wall_s": round(time.time() - self.t0, 2), "violations": len(reported)}
        evdir = os.environ.get("VERIF_EVIDENCE_DIR") or os.path.join(VERIF, "evidence")
        os.makedirs(evdir, exist_ok=True)
        with open(os.path.join(evdir, self.prop + ".json"), "w") as f:
            json.dump(ev, f, indent=1, sort_keys=True)
        return 1 if reported else 0


def abbrev(o, depth=0):
    if isinstance(o, dict):
        return {k: abbrev(v, depth + 1) for k, v in list(o.items())[:24]}
    if isinstance(o, list):
        r = [abbrev(v, depth + 1) for v in o[:4]]
        if len(o) > 4:
            r.append("... %d more" % (len(o) - 4))
        return r
    if isinstance(o, str) and len(o) > 160:
        return o[:160] + "..."
    return o


def match_known(open_kf, v):
    for k in open_kf:
        if k.get("clause") and k["clause"] != v["clause"]:
            continue
        ok = True
        feats = features(v)
        for key, want in (k.get("when") or {}).items():
            have = feats.get(key)
            if isinstance(want, dict):
                if "contains" in want and not (isinstance(have, (str, list)) and want["contains"] in have):
                    ok = False
                if "nonempty" in want and bool(have) != bool(want["nonempty"]):
                    ok = False
            elif have != want:
                ok = False
        if ok:
            return k
    return None


def features(v):
    """named features of a failing case's abstract input, used by known_findings.json"""
    c = v.get("case") or {}
    e = v.get("event") or {}
    f = {"family": v.get("family"), "clause": v.get("clause")}
    for k in ("fmt", "pk", "fam", "kind", "variant", "sub", "op", "method", "sigtype", "compression"):
        if k in c:
            f[k] = c[k]
        if k in e and k not in f:
            f[k] = e[k]
    cfg = c.get("cfg") or {}
    for k in ("epoch", "prerelease", "release", "compression"):
        if k in cfg:
            f[k] = cfg[k]
    f["explain"] = v.get("explain", "")
    f["key"] = e.get("key", e.get("name", ""))
    return f


def main_wrapper(fn):
    args = sys.argv[1:]
    if len(args) < 1:
        print("usage: check <Cxx> [quick|thorough] [--replay file]")
        sys.exit(2)
    prop = args[0]
    tier = os.environ.get("VERIF_TIER") or "quick"
    if len(args) > 1 and args[1] in ("quick", "thorough"):
        tier = args[1]
    try:
        seed = int(os.environ.get("VERIF_SEED", "1"))
    except ValueError:
        seed = 1
    if "--replay" in args:
        # a replay file holds the complete concrete case, the clause and the seed/tier of the run that found it;
        # generation is deterministic in (seed, tier), so re-running the check with them re-creates the case on the
        # CURRENT tree.  Exit 1 iff the same clause fails again.
        rp = args[args.index("--replay") + 1]
        try:
            rj = json.load(open(rp))
        except Exception as e:
            print("INFRASTRUCTURE-ERROR cannot read replay file %s: %s" % (rp, e))
            sys.exit(2)
        seed, tier = int(rj.get("seed", seed)), rj.get("tier", tier)
        print("replay: property=%s clause=%s family=%s seed=%s tier=%s case=%s" % (
            rj.get("property"), rj.get("clause"), rj.get("family"), seed, tier, json.dumps(rj.get("case"))[:300]))
        os.environ["VERIF_REPLAY_CLAUSE"] = rj.get("clause", "")
    run = Run(prop, tier, seed)
    rc = 2
    try:
        rc = fn(run, args)
    except Infra as e:
        print("INFRASTRUCTURE-ERROR property=%s: %s" % (prop, e))
        rc = 2
    except KeyboardInterrupt:
        rc = 2
    finally:
        run.cleanup()
    sys.exit(rc)
