SPECIFICATION Spec
CONSTANTS CliDeviations = {"RemoveWrongPath"}
INVARIANTS FailureLeavesNothing
CHECK_DEADLOCK FALSE
