SPECIFICATION Spec
CONSTANTS
  ReproDeviations = {"HistoryLeaks"}
  Formats = {"deb"}
  MaxSrc = 1
  MaxSteps = 5
INVARIANTS Function
CHECK_DEADLOCK FALSE
