----------------------------- MODULE MC_Version -----------------------------
(***************************************************************************)
(* C14 at the design level: for every version tuple over a small alphabet  *)
(* the split is lossless, and the version strings the formats compose sort *)
(* a prerelease strictly before its release, order major.minor.patch       *)
(* numerically, and let a higher epoch win - under dpkg's and rpm's own    *)
(* comparison algorithms (DebCmp, RpmEvrCmp in Version.tla).               *)
(***************************************************************************)
EXTENDS Arch, TLC

CONSTANTS Nums, Pres, Metas, Rels, Epochs

VARIABLE t
Cfg(ma, mi, pa, pre, meta, rel, ep, explicit) ==
  [version |-> NatToStr(ma) \o "." \o NatToStr(mi) \o "." \o NatToStr(pa)
                 \o (IF explicit THEN "" ELSE Opt("-", pre) \o Opt("+", meta)),
   schema |-> "", prerelease |-> IF explicit THEN pre ELSE "", metadata |-> IF explicit THEN meta ELSE "",
   release |-> rel, epoch |-> ep]

Tuples == Nums \X Nums \X Nums \X Pres \X Metas \X Rels \X Epochs \X BOOLEAN
Init == t \in Tuples
Next == UNCHANGED t
Spec == Init /\ [][Next]_t

C(x) == Cfg(x[1], x[2], x[3], x[4], x[5], x[6], x[7], x[8])
Rel0(x) == Cfg(x[1], x[2], x[3], "", x[5], x[6], x[7], x[8])    \* the corresponding release build
RpmEvr(c) == [epoch |-> c.epoch, version |-> RpmVersion(c), release |-> RpmRelease(c)]

SplitLossless ==
  LET c == C(t)  v == EffVersion(c) IN
  /\ v.split
  /\ v.version = NatToStr(t[1]) \o "." \o NatToStr(t[2]) \o "." \o NatToStr(t[3])
  /\ v.pre = t[4] /\ v.meta = t[5]

PreSortsBeforeRelease ==
  t[4] # "" =>
    /\ DebCmp(DebVersion(C(t)), DebVersion(Rel0(t))) < 0
    /\ RpmEvrCmp(RpmEvr(C(t)), RpmEvr(Rel0(t))) < 0

NumericOrder ==
  \A n \in Nums : n > t[1] =>
     LET hi == Cfg(n, t[2], t[3], t[4], t[5], t[6], t[7], t[8]) IN
     /\ DebCmp(DebVersion(C(t)), DebVersion(hi)) < 0
     /\ RpmEvrCmp(RpmEvr(C(t)), RpmEvr(hi)) < 0

EpochDominates ==
  \A e \in Epochs : \A n \in Nums :
     (e # "" /\ (t[7] = "" \/ ToNat(e) > ToNat(t[7]))) =>
        LET lowver == Cfg(n, 0, 0, "", "", t[6], e, FALSE) IN
        /\ DebCmp(DebVersion(C(t)), DebVersion(lowver)) < 0
        /\ RpmEvrCmp(RpmEvr(C(t)), RpmEvr(lowver)) < 0
=============================================================================
