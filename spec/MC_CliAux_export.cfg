SPECIFICATION Spec
INVARIANTS ExportBehaviours
CHECK_DEADLOCK FALSE
