------------------------------ MODULE FsPaths ------------------------------
(***************************************************************************)
(* Directories that belong to the distribution's `filesystem` package      *)
(* (files/fs.go: fsPaths and logrotatePaths).  A directory found in a      *)
(* `tree` at one of these paths is planned as an IMPLIED directory, and a  *)
(* tree whose destination is one of them does not pass its owner/group on. *)
(* Recorded from the implementation (DOC: no listed property mentions it). *)
(***************************************************************************)
FsOwnedPaths ==
  {"/afs", "/bin", "/boot", "/dev", "/etc", "/etc/X11",
   "/etc/X11/applnk", "/etc/X11/fontpath.d", "/etc/X11/xinit", "/etc/X11/xinit/xinitrc.d", "/etc/X11/xinit/xinput.d", "/etc/bash_completion.d",
   "/etc/keys", "/etc/keys/ima", "/etc/opt", "/etc/pki", "/etc/pm", "/etc/pm/config.d",
   "/etc/pm/power.d", "/etc/pm/sleep.d", "/etc/rwtab.d", "/etc/skel", "/etc/statetab.d", "/etc/sysconfig",
   "/etc/xdg", "/etc/xdg/autostart", "/home", "/lib", "/lib64", "/media",
   "/mnt", "/opt", "/proc", "/root", "/run", "/sbin",
   "/srv", "/sys", "/tmp", "/usr", "/usr/bin", "/usr/games",
   "/usr/include", "/usr/lib", "/usr/lib/debug", "/usr/lib/debug/.dwz", "/usr/lib/debug/bin", "/usr/lib/debug/lib",
   "/usr/lib/debug/lib64", "/usr/lib/debug/sbin", "/usr/lib/debug/usr", "/usr/lib/debug/usr/.dwz", "/usr/lib/debug/usr/bin", "/usr/lib/debug/usr/lib",
   "/usr/lib/debug/usr/lib64", "/usr/lib/debug/usr/sbin", "/usr/lib/games", "/usr/lib/locale", "/usr/lib/modules", "/usr/lib/sysimage",
   "/usr/lib/systemd", "/usr/lib/systemd/system", "/usr/lib/systemd/user", "/usr/lib/sysusers.d", "/usr/lib/tmpfiles.d", "/usr/lib64",
   "/usr/lib64/X11", "/usr/lib64/bpf", "/usr/lib64/games", "/usr/lib64/pm-utils", "/usr/lib64/pm-utils/module.d", "/usr/lib64/pm-utils/power.d",
   "/usr/lib64/pm-utils/sleep.d", "/usr/libexec", "/usr/local", "/usr/local/bin", "/usr/local/etc", "/usr/local/games",
   "/usr/local/include", "/usr/local/lib", "/usr/local/lib64", "/usr/local/lib64/bpf", "/usr/local/libexec", "/usr/local/sbin",
   "/usr/local/share", "/usr/local/share/applications", "/usr/local/share/info", "/usr/local/share/man", "/usr/local/share/man/man1", "/usr/local/share/man/man1x",
   "/usr/local/share/man/man2", "/usr/local/share/man/man2x", "/usr/local/share/man/man3", "/usr/local/share/man/man3x", "/usr/local/share/man/man4", "/usr/local/share/man/man4x",
   "/usr/local/share/man/man5", "/usr/local/share/man/man5x", "/usr/local/share/man/man6", "/usr/local/share/man/man6x", "/usr/local/share/man/man7", "/usr/local/share/man/man7x",
   "/usr/local/share/man/man8", "/usr/local/share/man/man8x", "/usr/local/share/man/man9", "/usr/local/share/man/man9x", "/usr/local/share/man/mann", "/usr/local/src",
   "/usr/sbin", "/usr/share", "/usr/share/X11", "/usr/share/X11/fonts", "/usr/share/aclocal", "/usr/share/appdata",
   "/usr/share/applications", "/usr/share/augeas", "/usr/share/augeas/lenses", "/usr/share/backgrounds", "/usr/share/bash-completion", "/usr/share/bash-completion/completions",
   "/usr/share/bash-completion/helpers", "/usr/share/desktop-directories", "/usr/share/dict", "/usr/share/doc", "/usr/share/empty", "/usr/share/fish",
   "/usr/share/fish/vendor_completions.d", "/usr/share/games", "/usr/share/gnome", "/usr/share/help", "/usr/share/icons", "/usr/share/idl",
   "/usr/share/info", "/usr/share/licenses", "/usr/share/locale", "/usr/share/locale/en_US", "/usr/share/locale/en_US/LC_MESSAGES", "/usr/share/man",
   "/usr/share/man/man0p", "/usr/share/man/man1", "/usr/share/man/man1p", "/usr/share/man/man1x", "/usr/share/man/man2", "/usr/share/man/man2x",
   "/usr/share/man/man3", "/usr/share/man/man3p", "/usr/share/man/man3x", "/usr/share/man/man4", "/usr/share/man/man4x", "/usr/share/man/man5",
   "/usr/share/man/man5x", "/usr/share/man/man6", "/usr/share/man/man6x", "/usr/share/man/man7", "/usr/share/man/man7x", "/usr/share/man/man8",
   "/usr/share/man/man8x", "/usr/share/man/man9", "/usr/share/man/man9x", "/usr/share/man/mann", "/usr/share/metainfo", "/usr/share/mime-info",
   "/usr/share/misc", "/usr/share/omf", "/usr/share/pixmaps", "/usr/share/sounds", "/usr/share/themes", "/usr/share/wayland-sessions",
   "/usr/share/xsessions", "/usr/share/zsh", "/usr/share/zsh/site-functions", "/usr/src", "/usr/src/debug", "/usr/src/kernels",
   "/usr/tmp", "/var", "/var/adm", "/var/cache", "/var/db", "/var/empty",
   "/var/ftp", "/var/games", "/var/lib", "/var/lib/games", "/var/lib/misc", "/var/lib/rpm-state",
   "/var/local", "/var/log", "/var/mail", "/var/nis", "/var/opt", "/var/preserve",
   "/var/run", "/var/spool", "/var/spool/lpd", "/var/spool/mail", "/var/tmp", "/var/yp",
   "/etc/logrotate.d", "/usr/lib/.build-id", "/usr/lib/.build-id/ae", "/usr/share/licenses/logrotate", "/var/lib/logrotate"}
=============================================================================
