SPECIFICATION Spec
CONSTANTS HistDeviations = {}
  MaxOps = 4
INVARIANTS ExportBehaviours
CHECK_DEADLOCK FALSE
