SPECIFICATION MCSpec
CONSTANTS
  Deviations = {"SlashKeysDistinct", "TreeOverwritesSilently", "DotDotSpuriousRoot"}
  MaxLen = 2
  Packagers = {"deb"}
  Dsts = {"/a", "/a/b/", "a/d/", "../a/b/c"}
  Tags = {""}
  Full = FALSE
INVARIANTS PlanInv
CHECK_DEADLOCK FALSE
