SPECIFICATION Spec
CONSTANTS
  ReproDeviations = {}
  Formats = {"deb", "rpm"}
  MaxSteps = 6
INVARIANTS Function
CHECK_DEADLOCK FALSE
