SPECIFICATION Spec
CONSTANTS
  ReproDeviations = {}
  Formats = {"deb", "rpm"}
  MaxSrc = 1
  MaxSteps = 6
INVARIANTS Function
CHECK_DEADLOCK FALSE
