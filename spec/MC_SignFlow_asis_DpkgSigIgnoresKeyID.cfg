SPECIFICATION Spec
CONSTANTS SignDeviations = {"DpkgSigIgnoresKeyID"}
INVARIANTS RequestedKeySigns
CHECK_DEADLOCK FALSE
