SPECIFICATION Spec
CONSTANTS
  Procs <- MCProcs
  FmtOf <- MCFmtOf
  Cells <- MCCells
  CopyFileInfoOnPrepare = TRUE
  ClonePointersOnGet = TRUE
  SequentialOnly = FALSE
INVARIANTS OutEqualsFresh ConfigUnchanged RaceFree
CHECK_DEADLOCK FALSE
