----------------------------- MODULE MC_Schema -----------------------------
EXTENDS Schema
(* the enumerated settings and their values as DOCUMENTED (www/docs/configuration.md) *)
MCSettings == {"content.type", "deb.compression", "rpm.compression", "deb.signature.method", "deb.signature.type", "version_schema"}
Documented == [s \in MCSettings |->
  CASE s = "content.type" -> {"", "file", "config", "config|noreplace", "config|missingok", "dir", "symlink", "tree", "ghost", "doc", "licence", "license", "readme"}
    [] s = "deb.compression" -> {"gzip", "xz", "zstd", "none"}
    [] s = "rpm.compression" -> {"gzip", "lzma", "xz", "zstd", "gzip:9", "zstd:3"}
    [] s = "deb.signature.method" -> {"debsign", "dpkg-sig"}
    [] s = "deb.signature.type" -> {"origin", "maint", "archive"}
    [] s = "version_schema" -> {"semver", "none"}]
(* what the schema of the pinned tree allowed (as-is regression model) *)
Pinned == [s \in MCSettings |->
  CASE s = "content.type" -> {"", "symlink", "ghost", "config", "config|noreplace", "dir", "tree"}
    [] s = "deb.compression" -> {"gzip", "xz", "none"}
    [] s = "rpm.compression" -> {"gzip", "lzma", "xz"}
    [] OTHER -> Documented[s]]
MCKeys == {"name", "contents", "overrides.deb.depends"}
=============================================================================
