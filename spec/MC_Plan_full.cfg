SPECIFICATION MCSpec
CONSTANTS
  Deviations = {}
  MaxLen = 2
  Packagers = {"deb", "rpm", "apk"}
  Dsts = {"/a", "/a/b", "/a/b/", "a/d/", "/e/../a", "../a/b/c"}
  Tags = {"", "deb", "rpm"}
  Full = TRUE
INVARIANTS PlanInv EveryRelevantEntryPlaced
PROPERTIES NoSilentReplace
CHECK_DEADLOCK FALSE
