------------------------------ MODULE MC_Config ------------------------------
(***************************************************************************)
(* Design-level checks of the Config machine over small value domains:     *)
(* override locality and exactness for every kind of leaf, and the         *)
(* expansion rules (a value without '$' is unchanged for every             *)
(* environment; expansion is idempotent on values that contain no          *)
(* reference after expansion).                                             *)
(***************************************************************************)
EXTENDS Config, TLC

VARIABLE st
Kinds == {"string", "list", "bool", "int"}
Vals(k) == CASE k = "string" -> {"", "a", "b"} [] k = "list" -> {<<>>, <<"x">>, <<"y", "z">>}
             [] k = "bool" -> {FALSE, TRUE} [] k = "int" -> {0, 1, 7}
States == UNION { { [kind |-> k, base |-> b, ovf |-> o, ovg |-> g, ovstate |-> s] : b \in Vals(k), o \in Vals(k), g \in Vals(k),
                     s \in {"noblock", "noleaf", "empty", "set", "nullblock", "emptyblock"} } : k \in Kinds }
Init == st \in { x \in States : (x.ovstate = "empty" => IsEmptyVal(x.kind, x.ovf)) /\ (x.ovstate = "set" => ~IsEmptyVal(x.kind, x.ovf)) }
Next == UNCHANGED st
Spec == Init /\ [][Next]_st

Eff(s) == Effective("leaf", s.kind, s.base, s.ovf, s.ovstate)
(* the effective value for f does not depend on the override of another format *)
OverrideLocality == \A g2 \in Vals(st.kind) : Eff([st EXCEPT !.ovg = g2]) = Eff(st)
(* exactly the override when it is non-empty, else exactly the base *)
OverrideExactness == Eff(st) = (IF st.ovstate = "set" THEN st.ovf ELSE st.base)
NoBlockGetsBase == st.ovstate \in {"noblock", "nullblock", "emptyblock"} => Eff(st) = st.base

Envs == { <<>>, <<[k |-> "VAR", v |-> "val"]>>, <<[k |-> "VAR", v |-> ""]>>, <<[k |-> "VAR", v |-> "$VAR"]>> }
Raws == {"", "plain", "a b", "$VAR", "${VAR}", "x$VARy", "x${VAR}y", "$", "tail$", "${VAR", "$$VAR"}
NoDollarNoChange == \A r \in Raws : \A e \in Envs : ~Contains(r, "$") => ExpandStr(r, e) = r
ExpandKnown ==
  /\ ExpandStr("x${VAR}y", <<[k |-> "VAR", v |-> "val"]>>) = "xvaly"
  /\ ExpandStr("$VAR", <<>>) = ""
  /\ ExpandStr("x$VARy", <<[k |-> "VAR", v |-> "val"]>>) = "x"       \* the name is VARy
  /\ ExpandStr("tail$", <<>>) = "tail$"
  /\ ExpandList(<<" $VAR ", "keep">>, <<>>) = <<"keep">>
PassphrasePrecedence ==
  /\ Passphrase(<<[k |-> "NFPM_PASSPHRASE", v |-> "g"]>>, "DEB") = "g"
  /\ Passphrase(<<[k |-> "NFPM_PASSPHRASE", v |-> "g"], [k |-> "NFPM_DEB_PASSPHRASE", v |-> "d"]>>, "DEB") = "d"
  /\ Passphrase(<<[k |-> "NFPM_PASSPHRASE", v |-> "g"], [k |-> "NFPM_DEB_PASSPHRASE", v |-> "d"]>>, "RPM") = "g"
  /\ Passphrase(<<>>, "APK") = ""
=============================================================================
