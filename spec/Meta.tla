-------------------------------- MODULE Meta --------------------------------
(***************************************************************************)
(* C02: the control metadata a package must state, per format, computed    *)
(* from the abstract configuration.  MetaClauses returns the failing       *)
(* clauses "C02.<fmt>.<field>".                                            *)
(***************************************************************************)
EXTENDS Layout

Clause(f, k) == "C02." \o f \o "." \o k

(* observed single-valued field equals v (present exactly once with that value) *)
Is(evs, in, key, v) == HasMeta(evs, in, key) /\ MetaVals(evs, in, key) = <<v>>
(* configured (v # "") => stated with that value; not configured => absent (or stated empty) *)
IffSet(evs, in, key, v) ==
  IF v = "" THEN (~HasMeta(evs, in, key) \/ MetaVals(evs, in, key) \in {<<>>, <<"">>})
  ELSE Is(evs, in, key, v)
(* a list-valued key: every element, in order; absent when the list is empty *)
ListIs(evs, in, key, lst) ==
  IF lst = <<>> THEN ~HasMeta(evs, in, key) ELSE HasMeta(evs, in, key) /\ MetaVals(evs, in, key) = lst

Fail(cond, f, k) == IF cond THEN {} ELSE {Clause(f, k)}

Lines(s) == SplitBy(s, "\n")
TrimEach(q) == [i \in 1..Len(q) |-> TrimSpace(q[i])]
(* what a Debian control parser recovers from the description *)
DebDesc(d) == JoinBy(TrimEach(Lines(TrimSpace(d))), "\n")
Synopsis(d) == TrimSpace(Lines(TrimSpace(d))[1])
JoinRel(l) == JoinBy(l, ", ")
NonBlank(l) == SelectSeq(TrimEach(l), LAMBDA x : x # "")

(* every line of a changelog note is there (formats indent / bullet the continuation lines differently) *)
NoteIn(text, note) == \A ln \in SeqToSet(Lines(note)) : Contains(text, TrimSpace(ln))
DebArchField(f, c) == IF EffPlatform(c) # "linux" THEN EffPlatform(c) \o "-" \o ArchOf(f, c) ELSE ArchOf(f, c)
DefaultMaintainer == "Unset Maintainer <unset@localhost>"

IpkReservedFields == {"abiversion", "alternatives", "architecture", "auto-installed", "conffiles", "conflicts", "depends", "description", "essential",
  "filename", "homepage", "installed-size", "installed-time", "license", "maintainer", "md5sum", "package", "pre-depends", "priority", "provides",
  "recommends", "replaces", "section", "sha256sum", "size", "status", "suggests", "tags", "vendor", "version"}
IpkWrittenFields == {"ABIVersion", "Alternatives", "Architecture", "Auto-Installed", "Conflicts", "Depends", "Description", "Essential", "Homepage",
  "Installed-Size", "License", "Maintainer", "Package", "Pre-Depends", "Priority", "Provides", "Recommends", "Replaces", "Section", "Suggests", "Tags",
  "Vendor", "Version"}
KVKeys(kvs) == { kvs[i].k : i \in 1..Len(kvs) }
KVVal(kvs, k) == kvs[CHOOSE i \in 1..Len(kvs) : kvs[i].k = k].v
KVAll(kvs, k) == LET s == SelectSeq(kvs, LAMBDA x : x.k = k) IN [i \in 1..Len(s) |-> s[i].v]

(* ---- rpm relations -------------------------------------------------------- *)
SenseOf(op) == CASE op = "<" -> 2 [] op = ">" -> 4 [] op = "=" -> 8 [] op = "<=" -> 10 [] op = ">=" -> 12 [] OTHER -> 0
RelItem(s) ==
  LET t == SelectSeq(SplitBy(s, " "), LAMBDA x : x # "") IN
  IF Len(t) = 3 THEN [name |-> t[1], version |-> t[3], sense |-> SenseOf(t[2])]
  ELSE [name |-> s, version |-> "", sense |-> 0]
RECURSIVE Dedup(_, _)
Dedup(q, acc) == IF q = <<>> THEN acc
                 ELSE IF \E i \in 1..Len(acc) : acc[i] = Head(q) THEN Dedup(Tail(q), acc) ELSE Dedup(Tail(q), Append(acc, Head(q)))
RelItems(l) == Dedup([i \in 1..Len(l) |-> RelItem(l[i])], <<>>)
ObsRel(evs, kind, selfName) ==
  LET S == SelectSeq(evs, LAMBDA e : e.ev = "rel" /\ e.kind = kind) IN
  IF S = <<>> THEN <<>>
  ELSE SelectSeq(S[1].items, LAMBDA x : ~HasPrefix(x.name, "rpmlib(") /\ ~(kind = "provide" /\ x.name = selfName))

(* ---- per format ----------------------------------------------------------- *)
MetaClauses(f, c, evs) ==
  LET v == EffVersion(c)
      desc == EffDescription(c)
  IN
  CASE f = "deb" ->
         LET in == "control"
             fld == c.deb.fields
             trg == c.deb.triggers
             TrigName(k) == ReplaceAll(k, "_", "-")
         IN Fail(Is(evs, in, "Package", c.name), f, "Package")
            \cup Fail(Is(evs, in, "Version", DebVersion(c)), f, "Version")
            \cup Fail(Is(evs, in, "Architecture", DebArchField(f, c)), f, "Architecture")
            \cup Fail(Is(evs, in, "Maintainer", IF c.maintainer = "" THEN DefaultMaintainer ELSE c.maintainer), f, "Maintainer")
            \cup Fail(Is(evs, in, "Description", DebDesc(desc)), f, "Description")
            \cup Fail(IffSet(evs, in, "Section", c.section), f, "Section")
            \cup Fail(Is(evs, in, "Priority", IF c.priority = "" THEN "optional" ELSE c.priority), f, "Priority")
            \cup Fail(IffSet(evs, in, "License", c.license), f, "License")
            \cup Fail(IffSet(evs, in, "Homepage", c.homepage), f, "Homepage")
            \cup Fail(IffSet(evs, in, "Depends", JoinRel(c.depends)), f, "Depends")
            \cup Fail(IffSet(evs, in, "Pre-Depends", JoinRel(c.deb.predepends)), f, "Pre-Depends")
            \cup Fail(IffSet(evs, in, "Recommends", JoinRel(c.recommends)), f, "Recommends")
            \cup Fail(IffSet(evs, in, "Suggests", JoinRel(c.suggests)), f, "Suggests")
            \cup Fail(IffSet(evs, in, "Conflicts", JoinRel(c.conflicts)), f, "Conflicts")
            \cup Fail(IffSet(evs, in, "Breaks", JoinRel(c.deb.breaks)), f, "Breaks")
            \cup Fail(IffSet(evs, in, "Replaces", JoinRel(c.replaces)), f, "Replaces")
            \cup Fail(IffSet(evs, in, "Provides", JoinRel(NonBlank(c.provides))), f, "Provides")
            \cup UNION { Fail(IffSet(evs, in, k, KVVal(fld, k)), f, "fields") : k \in KVKeys(fld) }
            \cup Fail(\A i \in 1..Len(evs) : (evs[i].ev = "meta" /\ evs[i].in = in) => Len(evs[i].values) <= 1, f, "field_stated_once")
            \cup UNION { Fail(ListIs(evs, "triggers", TrigName(k), KVAll(trg, k)), f, "triggers") : k \in KVKeys(trg) }
            \cup Fail(trg # <<>> \/ ~(\E i \in 1..Len(evs) : evs[i].ev = "meta" /\ evs[i].in = "triggers"), f, "triggers")
            \cup (IF c.has_changelog
                  THEN Fail(\E i \in 1..Len(evs) : evs[i].ev = "changelog" /\
                              \A j \in 1..Len(c.changelog) :
                                 /\ Contains(evs[i].text, c.changelog[j].semver)
                                 /\ \A n \in 1..Len(c.changelog[j].notes) : NoteIn(evs[i].text, c.changelog[j].notes[n]),
                            f, "changelog")
                  ELSE Fail(~\E i \in 1..Len(evs) : evs[i].ev = "changelog", f, "changelog"))
    [] f = "ipk" ->
         LET in == "control"
             fld == c.ipk.fields
             alt == c.ipk.alternatives
             altStr == JoinBy([i \in 1..Len(alt) |-> NatToStr(alt[i].priority) \o ":" \o alt[i].link_name \o ":" \o alt[i].target], ", ")
         IN Fail(Is(evs, in, "Package", c.name), f, "Package")
            \cup Fail(Is(evs, in, "Version", DebVersion(c)), f, "Version")
            \cup Fail(Is(evs, in, "Architecture", ArchOf(f, c)), f, "Architecture")
            \cup Fail(Is(evs, in, "Maintainer", IF TrimSpace(c.maintainer) = "" THEN DefaultMaintainer ELSE c.maintainer), f, "Maintainer")
            \cup Fail(Is(evs, in, "Description", DebDesc(desc)), f, "Description")
            \cup Fail(IffSet(evs, in, "Section", c.section), f, "Section")
            \cup Fail(Is(evs, in, "Priority", IF c.priority = "" THEN "optional" ELSE c.priority), f, "Priority")
            \cup Fail(IffSet(evs, in, "License", c.license), f, "License")
            \cup Fail(IffSet(evs, in, "Homepage", c.homepage), f, "Homepage")
            \cup Fail(IffSet(evs, in, "Vendor", c.vendor), f, "Vendor")
            \cup Fail(IffSet(evs, in, "Depends", JoinRel(c.depends)), f, "Depends")
            \cup Fail(IffSet(evs, in, "Pre-Depends", JoinRel(c.ipk.predepends)), f, "Pre-Depends")
            \cup Fail(IffSet(evs, in, "Recommends", JoinRel(c.recommends)), f, "Recommends")
            \cup Fail(IffSet(evs, in, "Suggests", JoinRel(c.suggests)), f, "Suggests")
            \cup Fail(IffSet(evs, in, "Conflicts", JoinRel(c.conflicts)), f, "Conflicts")
            \cup Fail(IffSet(evs, in, "Replaces", JoinRel(c.replaces)), f, "Replaces")
            \cup Fail(IffSet(evs, in, "Provides", JoinRel(NonBlank(c.provides))), f, "Provides")
            \cup Fail(IffSet(evs, in, "ABIVersion", c.ipk.abi_version), f, "ABIVersion")
            \cup Fail(IffSet(evs, in, "Alternatives", altStr), f, "Alternatives")
            \cup Fail(IffSet(evs, in, "Tags", JoinRel(c.ipk.tags)), f, "Tags")
            \cup Fail(IffSet(evs, in, "Auto-Installed", IF c.ipk.auto_installed THEN "yes" ELSE ""), f, "Auto-Installed")
            \cup Fail(IffSet(evs, in, "Essential", IF c.ipk.essential THEN "yes" ELSE ""), f, "Essential")
            \cup Fail(\A i \in 1..Len(evs) : (evs[i].ev = "meta" /\ evs[i].in = in) => Len(evs[i].values) <= 1, f, "field_stated_once")
            \* a custom field appears with its value - unless it names (in any letter case) a field the packager writes or
            \* opkg owns: those are stripped (ipk.stripDisallowedFields), so a field the packager writes is stated once, by it
            \cup UNION { Fail(IF ToLowerStr(k) \in IpkReservedFields THEN (k \in IpkWrittenFields \/ ~HasMeta(evs, in, k))
                                ELSE IffSet(evs, in, k, KVVal(fld, k)), f, "fields") : k \in KVKeys(fld) }
    [] f = "rpm" ->
         LET in == "hdr"
             ch == c.changelog
         IN Fail(Is(evs, in, "1000", c.name), f, "NAME")
            \cup Fail(Is(evs, in, "1001", RpmVersion(c)), f, "VERSION")
            \cup Fail(Is(evs, in, "1002", RpmRelease(c)), f, "RELEASE")
            \cup Fail(IF c.epoch = "" THEN ~HasMeta(evs, in, "1003") ELSE Is(evs, in, "1003", NormNum(c.epoch)), f, "EPOCH")
            \cup Fail(Is(evs, in, "1004", IF c.rpm.summary # "" THEN c.rpm.summary ELSE Lines(desc)[1]), f, "SUMMARY")
            \cup Fail(Is(evs, in, "1005", desc), f, "DESCRIPTION")
            \* the configured build host; none configured: the name of the machine the package is built on (never another package's)
            \cup Fail(Is(evs, in, "1007", IF c.rpm.buildhost = "" THEN c.rpm.hostname ELSE c.rpm.buildhost), f, "BUILDHOST")
            \cup Fail(IffSet(evs, in, "1011", c.vendor), f, "VENDOR")
            \cup Fail(IffSet(evs, in, "1014", c.license), f, "LICENSE")
            \cup Fail(IffSet(evs, in, "1015", IF c.rpm.packager # "" THEN c.rpm.packager ELSE c.maintainer), f, "PACKAGER")
            \cup Fail(IffSet(evs, in, "1016", c.rpm.group), f, "GROUP")
            \cup Fail(IffSet(evs, in, "1020", c.homepage), f, "URL")
            \cup Fail(Is(evs, in, "1021", EffPlatform(c)), f, "OS")
            \cup Fail(Is(evs, in, "1022", ArchOf(f, c)), f, "ARCH")
            \cup Fail(ListIs(evs, in, "1098", c.rpm.prefixes), f, "PREFIXES")
            \cup Fail(ObsRel(evs, "require", c.name) = RelItems(c.depends), f, "REQUIRE")
            \cup Fail(ObsRel(evs, "provide", c.name) = RelItems(c.provides), f, "PROVIDE")
            \cup Fail(ObsRel(evs, "conflict", c.name) = RelItems(c.conflicts), f, "CONFLICT")
            \cup Fail(ObsRel(evs, "obsolete", c.name) = RelItems(c.replaces), f, "OBSOLETE")
            \cup Fail(ObsRel(evs, "recommend", c.name) = RelItems(c.recommends), f, "RECOMMEND")
            \cup Fail(ObsRel(evs, "suggest", c.name) = RelItems(c.suggests), f, "SUGGEST")
            \cup (IF c.has_changelog /\ Len(ch) > 0
                  THEN Fail(/\ ListIs(evs, in, "1080", [i \in 1..Len(ch) |-> NatToStr(ch[i].date)])
                            /\ ListIs(evs, in, "1081", [i \in 1..Len(ch) |-> ch[i].packager \o " - " \o ch[i].semver])
                            /\ HasMeta(evs, in, "1082") /\ Len(MetaVals(evs, in, "1082")) = Len(ch)
                            /\ \A i \in 1..Len(ch) : \A n \in 1..Len(ch[i].notes) : NoteIn(MetaVals(evs, in, "1082")[i], ch[i].notes[n]),
                            f, "CHANGELOG")
                  ELSE Fail(~HasMeta(evs, in, "1080") /\ ~HasMeta(evs, in, "1081") /\ ~HasMeta(evs, in, "1082"), f, "CHANGELOG"))
    [] f = "apk" ->
         LET in == "pkginfo" IN
            Fail(Is(evs, in, "pkgname", c.name), f, "pkgname")
            \cup Fail(Is(evs, in, "pkgver", ApkVersion(c)), f, "pkgver")
            \cup Fail(Is(evs, in, "arch", ArchOf(f, c)), f, "arch")
            \cup Fail(HasMeta(evs, in, "pkgdesc") /\ Lines(MetaVals(evs, in, "pkgdesc")[1])[1] = Lines(TrimSpace(desc))[1], f, "pkgdesc")
            \cup Fail(IffSet(evs, in, "url", c.homepage), f, "url")
            \cup Fail(IffSet(evs, in, "maintainer", c.maintainer), f, "maintainer")
            \cup Fail(IffSet(evs, in, "license", c.license), f, "license")
            \cup Fail(ListIs(evs, in, "depend", c.depends), f, "depend")
            \cup Fail(ListIs(evs, in, "provides", c.provides), f, "provides")
            \cup Fail(ListIs(evs, in, "replaces", c.replaces), f, "replaces")
    [] f = "archlinux" ->
         LET in == "pkginfo" IN
            Fail(Is(evs, in, "pkgname", c.name), f, "pkgname")
            \cup Fail(Is(evs, in, "pkgbase", IF c.archlinux.pkgbase # "" THEN c.archlinux.pkgbase ELSE c.name), f, "pkgbase")
            \* a failure that the named as-is deviation explains exactly is reported under the deviation's name
            \cup (IF Is(evs, in, "pkgver", ArchVersion(c)) THEN {}
                  ELSE IF Is(evs, in, "pkgver", ArchVersionAsIs(c)) THEN {Clause(f, "pkgver") \o "@ArchPrereleaseNeedsEpoch"}
                  ELSE {Clause(f, "pkgver")})
            \cup Fail(Is(evs, in, "arch", ArchOf(f, c)), f, "arch")
            \cup Fail(Is(evs, in, "pkgdesc", ReplaceAll(desc, "\n", " ")), f, "pkgdesc")
            \cup Fail(IffSet(evs, in, "url", c.homepage), f, "url")
            \cup Fail(Is(evs, in, "packager", IF c.archlinux.packager # "" THEN c.archlinux.packager ELSE "Unknown Packager"), f, "packager")
            \cup Fail(IffSet(evs, in, "license", c.license), f, "license")
            \cup Fail(ListIs(evs, in, "depend", c.depends), f, "depend")
            \cup Fail(ListIs(evs, in, "provides", c.provides), f, "provides")
            \cup Fail(ListIs(evs, in, "replaces", c.replaces), f, "replaces")
            \cup Fail(ListIs(evs, in, "conflict", c.conflicts), f, "conflict")
    [] OTHER -> {}

(* ---- C15: the conventional file name states what the inner metadata states *)
ExpFileName(f, c) ==
  LET v == EffVersion(c) IN
  CASE f = "deb" -> c.name \o "_" \o v.version \o Opt("~", v.pre) \o Opt("+", v.meta) \o Opt("-", c.release) \o "_" \o ArchOf(f, c) \o ".deb"
    [] f = "ipk" -> c.name \o "_" \o v.version \o Opt("~", v.pre) \o Opt("+", v.meta) \o Opt("-", c.release) \o "_" \o ArchOf(f, c) \o ".ipk"
    [] f = "rpm" -> c.name \o "-" \o RpmVersion(c) \o "-" \o RpmRelease(c) \o "." \o ArchOf(f, c) \o ".rpm"
    [] f = "apk" -> c.name \o "_" \o ApkVersion(c) \o "_" \o ArchOf(f, c) \o ".apk"
    [] f = "archlinux" -> c.name \o "-" \o v.version \o ReplaceAll(v.pre, "-", "_") \o "-" \o ArchRel(c) \o "-" \o ArchOf(f, c) \o ".pkg.tar.zst"

Ext(f) == CASE f = "deb" -> ".deb" [] f = "ipk" -> ".ipk" [] f = "rpm" -> ".rpm" [] f = "apk" -> ".apk" [] f = "archlinux" -> ".pkg.tar.zst"

(* ---- per-format override blocks (C13 composed with C02/C09/C01) ------------ *)
(* The effective configuration of format f: the overridable fields the block sets to a non-empty value replace the base *)
(* (lists wholesale, umask when non-zero, the common scripts field by field); everything else is the base.  This is    *)
(* Config!Effective applied to the record the layout clauses read.                                                      *)
CommonSlots == {"preinstall", "postinstall", "preremove", "postremove"}
OvList(b, o) == IF o # <<>> THEN o ELSE b
EffCfg(c, o) ==
  [c EXCEPT !.depends = OvList(@, o.depends), !.recommends = OvList(@, o.recommends), !.suggests = OvList(@, o.suggests),
            !.conflicts = OvList(@, o.conflicts), !.replaces = OvList(@, o.replaces), !.provides = OvList(@, o.provides),
            !.umask = IF o.umask # 0 THEN o.umask ELSE @,
            !.scripts = [s \in DOMAIN @ |-> IF s \in CommonSlots /\ o.scripts[s] # "" THEN o.scripts[s] ELSE @[s]],
            !.script_mt = [s \in DOMAIN @ |-> IF s \in CommonSlots /\ o.scripts[s] # "" THEN o.script_mt[s] ELSE @[s]]]

(* recomposed from the OBSERVED inner metadata: name, version string (without epoch), architecture *)
StripEpoch(s) == LET i == IndexOf(s, ":") IN IF i = 0 THEN s ELSE SubSeq(s, i + 1, Len(s))
IdentKeys(f) == CASE f \in {"deb", "ipk"} -> {<<"control", "Package">>, <<"control", "Version">>, <<"control", "Architecture">>}
                  [] f \in {"apk", "archlinux"} -> {<<"pkginfo", "pkgname">>, <<"pkginfo", "pkgver">>, <<"pkginfo", "arch">>}
                  [] OTHER -> {}
FileNameClauses(f, c, fname, evs) ==
  LET inner ==
        CASE f \in {"deb", "ipk"} -> Meta1(evs, "control", "Package") \o "_" \o StripEpoch(Meta1(evs, "control", "Version")) \o "_" \o
                                      (IF f = "deb" /\ EffPlatform(c) # "linux" THEN ArchOf(f, c) ELSE Meta1(evs, "control", "Architecture")) \o Ext(f)
          [] f = "rpm" -> Meta1(evs, "hdr", "1000") \o "-" \o Meta1(evs, "hdr", "1001") \o "-" \o Meta1(evs, "hdr", "1002") \o "." \o Meta1(evs, "hdr", "1022") \o Ext(f)
          [] f = "apk" -> Meta1(evs, "pkginfo", "pkgname") \o "_" \o Meta1(evs, "pkginfo", "pkgver") \o "_" \o Meta1(evs, "pkginfo", "arch") \o Ext(f)
          [] f = "archlinux" -> Meta1(evs, "pkginfo", "pkgname") \o "-" \o StripEpoch(Meta1(evs, "pkginfo", "pkgver")) \o "-" \o Meta1(evs, "pkginfo", "arch") \o Ext(f)
  IN (IF fname = inner THEN {}
      ELSE IF f = "archlinux" /\ fname = ExpFileName(f, c) /\ Meta1(evs, "pkginfo", "pkgver") = ArchVersionAsIs(c)
           THEN {"C15.filename_matches_inner_metadata@ArchPrereleaseNeedsEpoch"}
      ELSE {"C15.filename_matches_inner_metadata"})
     \* "the" inner metadata: each field the name is made of is stated once (a second Architecture line - the one a reader
     \* that keeps the last value goes by - is metadata the name does not state)
     \cup (IF \E k \in IdentKeys(f) : HasMeta(evs, k[1], k[2]) /\ Len(MetaVals(evs, k[1], k[2])) # 1 THEN {"C15.filename_matches_inner_metadata"} ELSE {})
     \cup (IF ~HasSuffix(fname, Ext(f)) THEN {"C15.conventional_extension"} ELSE {})
     \cup (IF fname # ExpFileName(f, c) THEN {"C15.filename_composition"} ELSE {})
=============================================================================
