SPECIFICATION MCSpec
CONSTANTS
  Deviations = {}
  MaxLen = 3
  Packagers = {"deb", "rpm"}
  Dsts = {"/a", "/a/b/", "a/d/"}
  Tags = {""}
  Full = FALSE
INVARIANTS PlanInv OrderInsensitive EveryRelevantEntryPlaced
PROPERTIES NoSilentReplace
CHECK_DEADLOCK FALSE
