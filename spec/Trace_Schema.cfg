SPECIFICATION TraceSpec
CONSTRAINT HighWater
POSTCONDITION Accepted
CHECK_DEADLOCK FALSE
