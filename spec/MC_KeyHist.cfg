SPECIFICATION Spec
CONSTANTS HistDeviations = {}
  MaxOps = 5
INVARIANTS TypeOK SignedWithTheKeyInTheFile
CHECK_DEADLOCK FALSE
