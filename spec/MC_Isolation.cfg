SPECIFICATION Spec
CONSTANTS
  Procs <- MCProcs
  FmtOf <- MCFmtOf
  Cells <- MCCells
  CopyFileInfoOnPrepare = TRUE
  ClonePointersOnGet = TRUE
  SequentialOnly = TRUE
INVARIANTS OutEqualsFresh ConfigUnchanged
CHECK_DEADLOCK FALSE
