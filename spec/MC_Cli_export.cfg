SPECIFICATION Spec
CONSTANTS CliDeviations = {}
INVARIANTS SuccessMeansComplete FailureLeavesNothing WritesWhereAsked InfersOnlyWhenNotGiven ExportBehaviours
CHECK_DEADLOCK FALSE
