---------------------------- MODULE Trace_Fault ----------------------------
(***************************************************************************)
(* Trace validation for "failure is loud" (C06) and the signing-failure    *)
(* typing half of C10: sink faults at every write index, removed file      *)
(* references, invalid settings, and runs of the built nfpm binary.        *)
(***************************************************************************)
EXTENDS Layout, Json

Trace == ndJsonDeserialize("trace.ndjson")
VARIABLES l, cid, viol, drift, merr, ncases
vars == <<l, cid, viol, drift, merr, ncases>>
IsEv(e) == l <= Len(Trace) /\ Trace[l].ev = e /\ l' = l + 1
TraceInit == l = 1 /\ cid = 0 /\ viol = {} /\ drift = {} /\ merr = {} /\ ncases = 0
Cap == 400
Rec(req, doc, me) ==
  /\ viol' = IF Cardinality(viol) >= Cap THEN viol ELSE viol \cup { <<cid, l, n>> : n \in req }
  /\ drift' = IF Cardinality(drift) >= Cap THEN drift ELSE drift \cup { <<cid, l, n>> : n \in doc }
  /\ merr' = merr \cup { <<cid, l, n>> : n \in me }
Cl(cond, name) == IF cond THEN {} ELSE {name}

TraceCase == IsEv("case") /\ cid' = Trace[l].id /\ ncases' = ncases + 1 /\ UNCHANGED <<viol, drift, merr>>
TraceEnd == IsEv("endcase") /\ UNCHANGED <<cid, viol, drift, merr, ncases>>
TraceBaseline == IsEv("baseline") /\ Rec({}, {}, IF Trace[l].err # "" THEN {"baseline_build_failed"} ELSE {}) /\ UNCHANGED <<cid, ncases>>

(* Pipeline.tla: a fault at write k < n must surface; success means every byte was delivered *)
TraceFault ==
  /\ IsEv("fault")
  /\ LET e == Trace[l] IN
     Rec(Cl(~(e.k < e.n /\ e.ret = "ok"), "C06.error_after_sink_error")
         \cup Cl(~(e.ret = "ok" /\ ~e.complete), "C06.success_means_complete"),
         {}, IF e.k >= e.n /\ e.ret # "ok" THEN {"error_without_fault"} ELSE {})
  /\ UNCHANGED <<cid, ncases>>

SlotNames(f) == { p[1] : p \in SlotTable(f) }
Consumed(e) ==
  CASE e.kind = "content" -> Relevant(e.fmt, [type |-> e.type, tag |-> e.tag])
    [] e.kind = "script" -> e.name \in SlotNames(e.fmt)
    [] e.kind = "changelog" -> e.fmt \in {"deb", "rpm"}
    [] e.kind = "keyfile" -> TRUE

TraceSrcFault ==
  /\ IsEv("srcfault")
  /\ LET e == Trace[l] IN
     Rec(Cl(Consumed(e) => e.ret = "error", "C06.error_when_consumed_reference_missing")
         \cup Cl((e.kind = "keyfile" /\ e.ret = "error") => e.is_signing_failure, "C10.signing_failure_identifiable"),
         IF ~Consumed(e) /\ e.ret = "error" THEN {"DOC.unconsumed_reference_required"} ELSE {},
         IF e.baseline_err # "" THEN {"baseline_build_failed"} ELSE {})
  /\ UNCHANGED <<cid, ncases>>

AllFmts == {"deb", "rpm", "apk", "archlinux", "ipk"}
InvalidFor(class) ==
  CASE class = "none" -> {} [] class = "deb_compression" -> {"deb"} [] class = "rpm_compression" -> {"rpm"}
    [] class \in {"content_type", "content_type_config_replace", "content_type_configuration", "content_type_config_both_flags"} -> AllFmts [] class = "deb_signature_type" -> {"deb"} [] class \in {"rpm_epoch", "rpm_epoch_range", "rpm_epoch_negative"} -> {"rpm"}   \* an rpm epoch is an unsigned 32-bit number
    [] class \in {"rpm_relation_depends", "rpm_relation_provides", "rpm_relation_recommends", "rpm_relation_replaces",
                 "rpm_relation_suggests", "rpm_relation_conflicts"} -> {"rpm"}    \* rpm knows <, <=, =, >=, > only
    [] class = "platform" -> {"apk", "archlinux"} [] class \in {"arch_name", "arch_name_hyphen", "arch_name_dot", "arch_name_dashes"} -> {"archlinux"}   \* may not start with hyphen or dot [] class = "missing_name" -> AllFmts
    [] class = "wrong_passphrase" -> {"deb", "rpm", "apk"}
    \* deb and ipk write GNU tar headers: an owner / group name of more than 32 bytes cannot be stored
    [] class \in {"gnu_name_limit_dir", "gnu_name_limit_file", "gnu_name_limit_tree_dirs"} -> {"deb", "ipk"}
    \* a hand-built Info (no defaults): a package needs a name and a version, and deb/rpm/apk an architecture - the general
    \* one or the packager's OWN (another packager's architecture is not this package's)
    [] class \in {"handbuilt_no_arch", "handbuilt_arch_of_other"} -> {"deb", "rpm", "apk"}
    [] class \in {"handbuilt_no_version", "handbuilt_no_name"} -> AllFmts
    [] OTHER -> {}

TraceInvalid ==
  /\ IsEv("invalid")
  /\ LET e == Trace[l] IN
     Rec(Cl(e.fmt \in InvalidFor(e.class) => e.ret = "error", "C06.error_on_invalid_setting")
         \cup Cl((e.class \in {"deb_signature_type", "wrong_passphrase"} /\ e.fmt \in InvalidFor(e.class) /\ e.ret = "error") => e.is_signing_failure,
                 "C10.signing_failure_identifiable"),
         IF e.fmt \notin InvalidFor(e.class) /\ e.ret = "error" THEN {"DOC.setting_of_other_format_rejected"} ELSE {}, {})
  /\ UNCHANGED <<cid, ncases>>

(* Cli.tla: one run of the binary = the composition of the machine's steps; only the terminal state is observable *)
IsDirKind(k) == k \in {"dir", "dir_slash", "dir_dotted", "dir_tilde", "symlink_dir"}
CanInfer(f, k) == (k \in {"file", "file_tilde", "devfull", "existing_larger"} /\ f # "archlinux") \/ k = "file_other_ext"
Signs(f) == f \in {"deb", "rpm", "apk"}
ExpectFail(a) == (a.fault # "none" /\ ~(a.fault = "missing_key" /\ ~Signs(a.built))) \/ (~a.with_p /\ ~CanInfer(a.fmt, a.target_kind))

TraceCli ==
  /\ IsEv("cli")
  /\ LET e == Trace[l]
         files == Len(e.out_files) + Len(e.cwd_files)
         left == IF e.target_kind = "symlink_dir" THEN files ELSE files
     IN Rec((IF ExpectFail(e)
            THEN Cl(e.exit # 0, "C06.cli_nonzero_exit")
                 \* the cause printed is that of the FIRST step that fails: packager inference precedes everything else
                 \cup Cl(IF ~e.with_p /\ ~CanInfer(e.fmt, e.target_kind) THEN e.mentions_packager
                         ELSE (e.fault = "none" \/ e.mentions_cause), "C06.cli_prints_cause")
                 \* nothing nfpm created is left; what was at the -t name before a run that fails before creating anything stays
                 \cup Cl(e.obs_fs \in {"absent", "old"}, "C06.cli_no_file_left")
                 \cup Cl(e.created_line = "", "C06.cli_no_success_message")
                 \* a signing that fails leaves no package behind and reports none (C10), wherever the package was to go
                 \cup (IF e.fault = "missing_key"
                       THEN Cl(e.exit # 0 /\ e.created_line = "", "C10.failed_signing_not_reported_as_built")
                            \cup Cl(e.obs_fs \in {"absent", "old"}, "C10.failed_signing_leaves_no_package")
                       ELSE {})
            ELSE Cl(e.exit = 0, "C15.cli_succeeds")
                 \cup Cl(e.file_at_expected, "C15.cli_writes_to_requested_target")
                 \cup Cl(e.bytes_equal_library_build, "C06.cli_output_complete")
                 \* ... of the packager given with -p whatever the target is called, else the one the target's extension names
                 \cup Cl(e.bytes_equal_library_build, "C15.cli_packages_with_the_packager_asked_for")
                 \* the reference is the library build of the settings in effect for this format (its override block applied)
                 \cup Cl(e.bytes_equal_library_build, "C13.cli_builds_effective_settings_of_packaged_format")
                 \* the same observation is what other properties say about the delivered file: its digests are those of the
                 \* package (C03), its bytes do not depend on what was at the target before (C07), its scripts are those of the
                 \* effective settings (C09)
                 \cup Cl(e.bytes_equal_library_build, "C01.cli_ships_the_payload_of_the_effective_settings")
                 \cup Cl(e.bytes_equal_library_build, "C02.cli_states_the_metadata_of_the_effective_settings")
                 \cup Cl(e.bytes_equal_library_build, "C03.cli_delivers_the_package_bytes")
                 \cup Cl(e.bytes_equal_library_build, "C07.cli_output_independent_of_target_history")
                 \cup Cl(e.bytes_equal_library_build, "C09.cli_embeds_the_scripts_of_the_effective_settings")
                 \* ... and of the literal values: the file the tool read spells a version, a relation and an opted-in content
                 \* source as references to the tool's environment
                 \cup Cl(e.bytes_equal_library_build, "C16.cli_expands_references_from_its_environment")
                 \cup Cl(files = 1, "C15.cli_no_stray_files")
                 \cup Cl(e.created_line # "", "C15.cli_reports_created_package"))
            \* spec -> code: the terminal state TLC computed for this argv (Cli.tla, exported behaviours) vs the projection of the real run
            \cup (IF e.tlc.present
                  THEN Cl(e.obs_exit = e.tlc.exit /\ e.obs_fs = e.tlc.fs /\ (e.created_line # "") = e.tlc.created, "C06.cli_terminal_state_as_specified")
                       \cup Cl(e.tlc.exit # 0 \/ e.obs_where = e.tlc.where, "C15.cli_writes_where_specified")
                  ELSE {}),
            {}, IF e.tlc.present /\ ExpectFail(e) # (e.tlc.exit # 0) THEN {"trace_spec_and_Cli_module_disagree"} ELSE {})
  /\ UNCHANGED <<cid, ncases>>

(* independent runs of the tool at the same time (separate processes, one output directory): each is a run of Cli.tla of *)
(* its own - exit 0, its package complete at its target - and together they leave exactly their five packages               *)
TraceCliConc ==
  /\ IsEv("cli_conc")
  /\ LET e == Trace[l]
         ok == e.exit = 0 /\ e.bytes_equal_library_build /\ e.files_left = e.expected_files
     IN Rec(Cl(ok, "C12.concurrent_runs_of_the_tool_equal_sequential")
            \cup Cl(ok, "C15.cli_writes_to_requested_target")
            \cup Cl(ok, "C06.cli_output_complete"), {}, {})
  /\ UNCHANGED <<cid, ncases>>

TraceEof ==
  /\ IsEv("eof")
  /\ PrintT(<<"VIOLSET", ToJson(viol)>>) /\ PrintT(<<"DRIFTSET", ToJson(drift)>>) /\ PrintT(<<"MERRSET", ToJson(merr)>>)
  /\ PrintT(<<"NCASES", ncases>>) /\ TLCSet(1, l)
  /\ UNCHANGED <<cid, viol, drift, merr, ncases>>

TraceNext == TraceCase \/ TraceEnd \/ TraceBaseline \/ TraceFault \/ TraceSrcFault \/ TraceInvalid \/ TraceCli \/ TraceCliConc \/ TraceEof
TraceSpec == TraceInit /\ [][TraceNext]_vars
HighWater == TLCSet(2, l)
Accepted == TLCGet(1) = Len(Trace)
=============================================================================
