SPECIFICATION MCSpec
CONSTANTS
  Deviations = {}
  MaxLen = 2
  Packagers = {"deb", "rpm", "apk"}
  Dsts = {"/a", "/a/b/", "a/d/", "../a/b/c"}
  Tags = {"", "rpm"}
  Full = FALSE
INVARIANTS PlanInv OrderInsensitive EveryRelevantEntryPlaced
PROPERTIES NoSilentReplace
CHECK_DEADLOCK FALSE
