SPECIFICATION Spec
CONSTANTS
  N = 7
  Deviations = {"CloseErrorDropped", "PadErrorIgnored"}
  FinalWrites = 2
  PadWrites = {3, 6}
INVARIANTS Loud
CHECK_DEADLOCK FALSE
