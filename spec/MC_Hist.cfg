SPECIFICATION Spec
CONSTANTS
  Fmts = {"deb", "rpm", "apk", "archlinux", "ipk"}
  MaxLen = 7
INVARIANTS Export
CHECK_DEADLOCK FALSE
