---------------------------- MODULE PipelineInd ----------------------------
(***************************************************************************)
(* Unbounded check of Pipeline's Loud with Apalache: the intended design   *)
(* (no deviation) for an ARBITRARY number N of sink writes, fault index,   *)
(* variant and mode.  IndInv is inductive:                                 *)
(*     Init => IndInv          IndInv /\ Next => IndInv'                   *)
(* and implies Loud and ErrorAfterSinkError.                               *)
(***************************************************************************)
EXTENDS Integers

CONSTANT
  \* @type: Int;
  N

VARIABLES
  \* @type: Str;
  pc,
  \* @type: Int;
  i,
  \* @type: Int;
  k,
  \* @type: Str;
  mode,
  \* @type: Str;
  variant,
  \* @type: Bool;
  failed,
  \* @type: Int;
  delivered,
  \* @type: Bool;
  firstErr,
  \* @type: Str;
  ret

CInit == N \in 0..1000000

Fails(j) == IF mode = "from" THEN j >= k ELSE j = k

Init == /\ pc = "run" /\ i = 0 /\ k \in 0..N /\ mode \in {"from", "once"} /\ variant \in {"error", "short", "latent"}
        /\ failed = FALSE /\ delivered = 0 /\ firstErr = FALSE /\ ret = "none"

SinkWrite ==
  /\ pc = "run" /\ i < N
  /\ failed' = (failed \/ Fails(i))
  /\ delivered' = IF Fails(i) /\ variant # "latent" THEN delivered ELSE delivered + 1
  /\ firstErr' = (firstErr \/ Fails(i))
  /\ pc' = IF Fails(i) THEN "return" ELSE "run"
  /\ i' = i + 1
  /\ UNCHANGED <<k, mode, variant, ret>>

Finish == /\ pc = "run" /\ i = N /\ pc' = "return" /\ UNCHANGED <<i, k, mode, variant, failed, delivered, firstErr, ret>>
Return == /\ pc = "return" /\ ret' = (IF firstErr THEN "error" ELSE "ok") /\ pc' = "done"
          /\ UNCHANGED <<i, k, mode, variant, failed, delivered, firstErr>>
Next == SinkWrite \/ Finish \/ Return

Loud == ret = "ok" => (~failed /\ delivered = N)
ErrorAfterSinkError == (pc = "done" /\ failed) => ret = "error"

TypeOK == /\ pc \in {"run", "return", "done"} /\ mode \in {"from", "once"} /\ variant \in {"error", "short", "latent"} /\ ret \in {"none", "ok", "error"}
          /\ i \in 0..N /\ k \in 0..N /\ delivered \in 0..N
          /\ failed \in BOOLEAN /\ firstErr \in BOOLEAN

IndInv ==
  /\ TypeOK
  /\ failed = firstErr                       \* the intended design sees every sink error
  /\ (~failed => delivered = i)              \* every write so far was delivered
  /\ (pc = "run" => ~failed /\ ret = "none")
  /\ (pc = "return" => ret = "none" /\ (failed \/ i = N))
  /\ (pc = "done" => (ret = "error" <=> failed) /\ (ret = "ok" => i = N) /\ ret # "none")
  /\ (pc # "done" => ret = "none")
  /\ Loud /\ ErrorAfterSinkError
=============================================================================
