SPECIFICATION Spec
CONSTANTS SignDeviations = {"FallbackToKeyFile"}
INVARIANTS NoSuccessAfterSignerError
CHECK_DEADLOCK FALSE
