------------------------------ MODULE MC_Heap ------------------------------
EXTENDS Heap
MCProcs == {1, 2, 3}
MCFmtOf == [p \in MCProcs |-> CASE p = 1 -> "deb" [] p = 2 -> "rpm" [] p = 3 -> "apk"]
MCCells == <<"declared1", "unsetA", "keyid", "unsetB">>
=============================================================================
