------------------------------ MODULE SignKeys ------------------------------
(* Key file layouts (see SignFlow.tla) and what in them may sign: shared by the state machine and by the trace    *)
(* specification that compares replayed runs with it.                                                             *)
IsPGP(f) == f # "apk"
Usable(l) == l \notin {"missing", "not_a_key"}
HasSigningSubkey(l) == l \in {"offline_primary", "primary_and_subkey"}
PrimarySigns(l) == l \in {"primary_signs", "primary_and_subkey"}
(* what may sign a package built from this key file: a signing subkey, the primary key if its flags allow signing *)
MaySign(a) == IF ~IsPGP(a.fmt) THEN {"rsa"}
              ELSE (IF HasSigningSubkey(a.layout) THEN {"subkey"} ELSE {}) \cup (IF PrimarySigns(a.layout) THEN {"primary"} ELSE {})
=============================================================================
