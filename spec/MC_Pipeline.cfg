SPECIFICATION Spec
CONSTANTS
  N = 7
  Deviations = {}
  FinalWrites = 2
  PadWrites = {3, 6}
INVARIANTS Loud ErrorAfterSinkError
CHECK_DEADLOCK FALSE
