SPECIFICATION Spec
INVARIANTS OverrideLocality OverrideExactness NoBlockGetsBase NoDollarNoChange ExpandKnown PassphrasePrecedence
CHECK_DEADLOCK FALSE
