SPECIFICATION Spec
CONSTANTS
  Deviations = {}
  MaxLen = 2
  Dsts = {"/a", "/a/b/"}
  Tags = {"", "rpm"}
INVARIANTS SameTreeAcrossFormats NoForeignContent RpmOnlyTypesOnlyInRpm ChangelogOnlyInDeb ConfigEntriesArePayloadFiles TablesAreFunctions
CHECK_DEADLOCK FALSE
