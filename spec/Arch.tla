-------------------------------- MODULE Arch --------------------------------
(***************************************************************************)
(* GOARCH -> package architecture, per format (www/docs/goarch-to-pkg.md,  *)
(* corrected where the document contradicts the distributions' real names: *)
(* Debian's amd64 is "amd64", Arch Linux ARM's arm6 is "armv6h"; the ipk    *)
(* table is undocumented and recorded from the implementation).            *)
(***************************************************************************)
EXTENDS Version

Tbl(pairs, a) == IF \E p \in pairs : p[1] = a THEN (CHOOSE p \in pairs : p[1] = a)[2] ELSE a

DebArchTbl == { <<"386", "i386">>, <<"arm64", "arm64">>, <<"arm5", "armel">>, <<"arm6", "armhf">>, <<"arm7", "armhf">>,
                <<"mips64le", "mips64el">>, <<"mipsle", "mipsel">>, <<"ppc64le", "ppc64el">>, <<"s390", "s390x">> }
RpmArchTbl == { <<"all", "noarch">>, <<"amd64", "x86_64">>, <<"386", "i386">>, <<"arm64", "aarch64">>, <<"arm5", "armv5tel">>,
                <<"arm6", "armv6hl">>, <<"arm7", "armv7hl">>, <<"mips64le", "mips64el">>, <<"mipsle", "mipsel">> }
ApkArchTbl == { <<"386", "x86">>, <<"amd64", "x86_64">>, <<"arm64", "aarch64">>, <<"arm6", "armhf">>, <<"arm7", "armv7">>,
                <<"s390", "s390x">> }
ArchArchTbl == { <<"all", "any">>, <<"amd64", "x86_64">>, <<"386", "i686">>, <<"arm64", "aarch64">>, <<"arm7", "armv7h">>,
                 <<"arm6", "armv6h">>, <<"arm5", "arm">> }
IpkArchTbl == { <<"386", "i386">>, <<"amd64", "x86_64">>, <<"arm64", "arm64">>, <<"arm5", "armel">>, <<"arm6", "armhf">>,
                <<"arm7", "armhf">>, <<"mips64le", "mips64el">>, <<"mipsle", "mipsel">>, <<"ppc64le", "ppc64el">>, <<"s390", "s390x">> }

ArchTbl(f) == CASE f = "deb" -> DebArchTbl [] f = "rpm" -> RpmArchTbl [] f = "apk" -> ApkArchTbl
                [] f = "archlinux" -> ArchArchTbl [] f = "ipk" -> IpkArchTbl

ArchOverride(f, c) == CASE f = "deb" -> c.deb.arch [] f = "rpm" -> c.rpm.arch [] f = "apk" -> c.apk.arch
                        [] f = "archlinux" -> c.archlinux.arch [] f = "ipk" -> c.ipk.arch

\* the format-specific override verbatim, else the table
ArchOf(f, c) == IF ArchOverride(f, c) # "" THEN ArchOverride(f, c) ELSE Tbl(ArchTbl(f), EffArch(c))

(* the table is a function, total on every GOARCH value, and an override is never translated *)
Formats == {"deb", "rpm", "apk", "archlinux", "ipk"}
=============================================================================
