------------------------------ MODULE Pipeline ------------------------------
(***************************************************************************)
(* "Failure is loud" (C06): the writer stack of one packaging.             *)
(*                                                                         *)
(* A packager pushes bytes through layers (tar -> compressor -> container  *)
(* -> the caller's sink).  Layers buffer; bytes reach the sink in N writes *)
(* of a successful run.  A fault makes sink write number k fail (error or  *)
(* short write, or "latent": every byte accepted and an error reported   *)
(* all the same), either from k on or at k only.  The INTENDED design   *)
(* returns an error whenever any sink write reported one, and success      *)
(* means every produced byte was delivered.                                *)
(*                                                                         *)
(* Deviations of the pinned implementation (as-is regression models):      *)
(*   "CloseErrorDropped"  the final flush happens in a deferred Close      *)
(*                        whose error is discarded (archlinux);            *)
(*   "PadErrorIgnored"    the container ignores the error of a 1-byte      *)
(*                        padding write (ar, odd-sized last member).       *)
(***************************************************************************)
EXTENDS Integers, Sequences, FiniteSets

CONSTANTS N,            \* sink writes of a fault-free run
          Deviations,
          FinalWrites,  \* how many of the N writes happen inside the final Close (flush of buffered data)
          PadWrites     \* set of write indexes that are padding writes of the container

VARIABLES pc, i, fault, failed, delivered, firstErr, ret
vars == <<pc, i, fault, failed, delivered, firstErr, ret>>

Faults == [k : 0..N, variant : {"error", "short", "latent"}, mode : {"from", "once"}]   \* k = N: no fault

Init == /\ pc = "run" /\ i = 0 /\ fault \in Faults /\ failed = FALSE /\ delivered = 0 /\ firstErr = FALSE /\ ret = "none"

Fails(j) == IF fault.mode = "from" THEN j >= fault.k ELSE j = fault.k

(* one sink write *)
SinkWrite ==
  /\ pc = "run" /\ i < N
  /\ LET bad == Fails(i)
         inClose == i >= N - FinalWrites
         seen == /\ bad
                 /\ ~("CloseErrorDropped" \in Deviations /\ inClose)
                 /\ ~("PadErrorIgnored" \in Deviations /\ i \in PadWrites)
     IN /\ failed' = (failed \/ bad)
        /\ delivered' = IF bad /\ fault.variant # "latent" THEN delivered ELSE delivered + 1
        /\ firstErr' = (firstErr \/ seen)
        \* a packager stops at the first error it sees
        /\ pc' = IF seen THEN "return" ELSE "run"
  /\ i' = i + 1
  /\ UNCHANGED <<fault, ret>>

Finish == /\ pc = "run" /\ i = N /\ pc' = "return" /\ UNCHANGED <<i, fault, failed, delivered, firstErr, ret>>

Return == /\ pc = "return" /\ ret' = (IF firstErr THEN "error" ELSE "ok") /\ pc' = "done"
          /\ UNCHANGED <<i, fault, failed, delivered, firstErr>>

Next == SinkWrite \/ Finish \/ Return
Spec == Init /\ [][Next]_vars

(* C06: no success on incomplete output *)
Loud == ret = "ok" => (~failed /\ delivered = N)
ErrorAfterSinkError == (pc = "done" /\ failed) => ret = "error"
=============================================================================
