------------------------------ MODULE Version ------------------------------
(***************************************************************************)
(* Version handling: the lenient semantic-version grammar nfpm applies by  *)
(* default, the split into components, the version string of each format,  *)
(* and the comparison algorithms of dpkg and rpm (transcribed as recursive *)
(* operators over characters) under which C14 states its ordering claims.  *)
(***************************************************************************)
EXTENDS Strings

(* ---- semver grammar (A.12 of DESIGN.md) -------------------------------- *)
\* N = 0 | [1-9][0-9]*
IsNumId(s) == AllDigits(s) /\ (Len(s) = 1 \/ Ch(s, 1) # "0")
IsIdChar(c) == IsAlnum(c) \/ c = "-"
AllIdChars(s) == Len(s) > 0 /\ \A i \in 1..Len(s) : IsIdChar(Ch(s, i))
\* prerelease identifier: numeric without leading zero, or alphanumeric with a non-digit
IsPreId(s) == AllIdChars(s) /\ (AllDigits(s) => IsNumId(s))
IsMetaId(s) == AllIdChars(s)

NoVersion == [ok |-> FALSE, major |-> "0", minor |-> "0", patch |-> "0", pre |-> "", meta |-> ""]

SemverParse(raw) ==
  LET s0 == IF HasPrefix(raw, "v") THEN DropPrefix(raw, 1) ELSE raw
      plus == IndexOf(s0, "+")
      core0 == IF plus = 0 THEN s0 ELSE SubSeq(s0, 1, plus - 1)
      meta == IF plus = 0 THEN "" ELSE SubSeq(s0, plus + 1, Len(s0))
      dash == IndexOf(core0, "-")
      nums == IF dash = 0 THEN core0 ELSE SubSeq(core0, 1, dash - 1)
      pre == IF dash = 0 THEN "" ELSE SubSeq(core0, dash + 1, Len(core0))
      parts == SplitBy(nums, ".")
      okNums == Len(parts) \in 1..3 /\ \A i \in 1..Len(parts) : IsNumId(parts[i])
      okPre == dash = 0 \/ (\A x \in SeqToSet(SplitBy(pre, ".")) : IsPreId(x))
      okMeta == plus = 0 \/ (\A x \in SeqToSet(SplitBy(meta, ".")) : IsMetaId(x))
  IN IF okNums /\ okPre /\ okMeta
     \* numeric identifiers carry no leading zeros, so the digit string IS the canonical number (no 32-bit arithmetic)
     THEN [ok |-> TRUE, major |-> parts[1],
           minor |-> IF Len(parts) >= 2 THEN parts[2] ELSE "0",
           patch |-> IF Len(parts) >= 3 THEN parts[3] ELSE "0",
           pre |-> pre, meta |-> meta]
     ELSE NoVersion

(* ---- effective identity settings (parse defaults) ----------------------- *)
StripFloat(a) == ReplaceAll(ReplaceAll(a, "softfloat", ""), "hardfloat", "")

(* c: abstract configuration record.  Result: the version components every  *)
(* packager works from.                                                     *)
EffVersion(c) ==
  LET v0 == IF c.version = "" THEN "v0.0.0-rc0" ELSE c.version
      p == IF c.schema = "none" THEN NoVersion ELSE SemverParse(v0)
  IN IF p.ok
     THEN [version |-> p.major \o "." \o p.minor \o "." \o p.patch,
           pre  |-> IF c.prerelease # "" THEN c.prerelease ELSE p.pre,
           meta |-> IF c.metadata # "" THEN c.metadata ELSE p.meta, split |-> TRUE]
     ELSE [version |-> v0, pre |-> c.prerelease, meta |-> c.metadata, split |-> FALSE]

EffArch(c) ==
  LET a == IF c.arch = "" THEN "amd64" ELSE c.arch
  IN IF HasPrefix(a, "mips") THEN StripFloat(a) ELSE a
EffPlatform(c) == IF c.platform = "" THEN "linux" ELSE c.platform
EffDescription(c) == IF c.description = "" THEN "no description given" ELSE c.description

RECURSIVE SkipZeros(_)
SkipZeros(s) == IF Len(s) > 0 /\ Ch(s, 1) = "0" THEN SkipZeros(DropPrefix(s, 1)) ELSE s

(* ---- version strings per format ----------------------------------------- *)
Opt(prefix, s) == IF s = "" THEN "" ELSE prefix \o s

DebVersion(c) ==
  LET v == EffVersion(c) IN
  Opt("", IF c.epoch = "" THEN "" ELSE c.epoch \o ":") \o v.version \o Opt("~", v.pre) \o Opt("+", v.meta) \o Opt("-", c.release)

RpmVersion(c) ==
  LET v == EffVersion(c) IN v.version \o Opt("~", ReplaceAll(v.pre, "-", "_")) \o Opt("+", v.meta)
RpmRelease(c) == IF c.release = "" THEN "1" ELSE c.release

ApkVersion(c) ==
  LET v == EffVersion(c)
      rel == IF c.release = "" THEN "" ELSE IF HasPrefix(c.release, "r") THEN c.release ELSE "r" \o c.release
      keep(m) == \E p \in {"p", "cvs", "svn", "git", "hg"} : HasPrefix(m, p)
      meta == IF v.meta = "" THEN "" ELSE IF keep(v.meta) THEN v.meta ELSE "p" \o v.meta
  IN v.version \o Opt("_", v.pre) \o Opt("-", rel) \o Opt("-", meta)

NormNum(s) == LET t == SkipZeros(s) IN IF t = "" THEN "0" ELSE t   \* a digit string as a number, without 32-bit arithmetic
ArchRel(c) == IF AllDigits(c.release) THEN NormNum(c.release) ELSE "1"
\* intended: the prerelease is part of pkgver whether or not an epoch is set
ArchVersion(c) ==
  LET v == EffVersion(c) IN
  (IF c.epoch # "" /\ AllDigits(c.epoch) THEN NormNum(c.epoch) \o ":" ELSE "")
    \o v.version \o ReplaceAll(v.pre, "-", "_") \o "-" \o ArchRel(c)
\* as-is deviation ("ArchPrereleaseNeedsEpoch"): without an epoch the prerelease is dropped
ArchVersionAsIs(c) ==
  LET v == EffVersion(c) IN
  IF c.epoch # "" /\ AllDigits(c.epoch) THEN ArchVersion(c) ELSE v.version \o "-" \o ArchRel(c)

(* ---- dpkg --compare-versions ------------------------------------------- *)
\* order of a character in dpkg's scheme: '~' < end < letters < everything else
Ascii == " !\"#$%&'()*+,-./0123456789:;<=>?@ABCDEFGHIJKLMNOPQRSTUVWXYZ[\\]^_`abcdefghijklmnopqrstuvwxyz{|}~"
\* a character outside ASCII sorts above every ASCII one (as its UTF-8 bytes do); two such characters are not ordered here
AsciiOf(c) == LET i == IndexOf(Ascii, c) IN IF i = 0 THEN 1000 ELSE i + 31
DpkgOrder(c) ==
  IF c = "" THEN 0
  ELSE IF IsDigit(c) THEN 0
  ELSE IF IsAlpha(c) THEN AsciiOf(c)
  ELSE IF c = "~" THEN 0 - 1
  ELSE AsciiOf(c) + 256

RECURSIVE DigitRun(_)
DigitRun(s) == IF Len(s) > 0 /\ IsDigit(Ch(s, 1)) THEN Ch(s, 1) \o DigitRun(DropPrefix(s, 1)) ELSE ""
RECURSIVE NonDigitRun(_)
NonDigitRun(s) == IF Len(s) > 0 /\ ~IsDigit(Ch(s, 1)) THEN Ch(s, 1) \o NonDigitRun(DropPrefix(s, 1)) ELSE ""

\* compare two digit strings numerically without overflow: -1, 0, 1
RECURSIVE CmpDigitsSameLen(_, _)
CmpDigitsSameLen(a, b) ==
  IF Len(a) = 0 THEN 0
  ELSE IF DigitVal(Ch(a, 1)) < DigitVal(Ch(b, 1)) THEN 0 - 1
  ELSE IF DigitVal(Ch(a, 1)) > DigitVal(Ch(b, 1)) THEN 1
  ELSE CmpDigitsSameLen(DropPrefix(a, 1), DropPrefix(b, 1))
CmpNum(a0, b0) ==
  LET a == SkipZeros(a0)  b == SkipZeros(b0) IN
  IF Len(a) < Len(b) THEN 0 - 1 ELSE IF Len(a) > Len(b) THEN 1 ELSE CmpDigitsSameLen(a, b)

RECURSIVE CmpNonDigit(_, _)
CmpNonDigit(a, b) ==                 \* both are non-digit prefixes (possibly empty)
  IF Len(a) = 0 /\ Len(b) = 0 THEN 0
  ELSE LET ca == IF Len(a) = 0 THEN "" ELSE Ch(a, 1)
           cb == IF Len(b) = 0 THEN "" ELSE Ch(b, 1)
           oa == DpkgOrder(ca)  ob == DpkgOrder(cb)
       IN IF oa # ob THEN (IF oa < ob THEN 0 - 1 ELSE 1)
          ELSE CmpNonDigit(IF Len(a) = 0 THEN a ELSE DropPrefix(a, 1), IF Len(b) = 0 THEN b ELSE DropPrefix(b, 1))

RECURSIVE DpkgVerrevcmp(_, _)
DpkgVerrevcmp(a, b) ==
  IF Len(a) = 0 /\ Len(b) = 0 THEN 0
  ELSE LET na == NonDigitRun(a)  nb == NonDigitRun(b)
           r1 == CmpNonDigit(na, nb)
       IN IF r1 # 0 THEN r1
          ELSE LET a2 == DropPrefix(a, Len(na))  b2 == DropPrefix(b, Len(nb))
                   da == DigitRun(a2)  db == DigitRun(b2)
                   r2 == CmpNum(da, db)
               IN IF r2 # 0 THEN r2
                  ELSE IF Len(na) + Len(da) = 0 /\ Len(nb) + Len(db) = 0 THEN 0
                  ELSE DpkgVerrevcmp(DropPrefix(a2, Len(da)), DropPrefix(b2, Len(db)))

RECURSIVE LastIndexOf(_, _, _)
LastIndexOf(s, c, i) == IF i = 0 THEN 0 ELSE IF Ch(s, i) = c THEN i ELSE LastIndexOf(s, c, i - 1)

DebParts(v) ==
  LET colon == IndexOf(v, ":")
      epoch == IF colon = 0 THEN "0" ELSE SubSeq(v, 1, colon - 1)
      rest == IF colon = 0 THEN v ELSE SubSeq(v, colon + 1, Len(v))
      hy == LastIndexOf(rest, "-", Len(rest))
  IN [epoch |-> epoch,
      upstream |-> IF hy = 0 THEN rest ELSE SubSeq(rest, 1, hy - 1),
      revision |-> IF hy = 0 THEN "" ELSE SubSeq(rest, hy + 1, Len(rest))]

DebCmp(a, b) ==
  LET pa == DebParts(a)  pb == DebParts(b)
      e == CmpNum(pa.epoch, pb.epoch)
      u == DpkgVerrevcmp(pa.upstream, pb.upstream)
  IN IF e # 0 THEN e ELSE IF u # 0 THEN u ELSE DpkgVerrevcmp(pa.revision, pb.revision)

(* ---- rpmvercmp ----------------------------------------------------------- *)
RpmSep(c) == ~IsAlnum(c) /\ c # "~" /\ c # "^"
RECURSIVE SkipSeps(_)
SkipSeps(s) == IF Len(s) > 0 /\ RpmSep(Ch(s, 1)) THEN SkipSeps(DropPrefix(s, 1)) ELSE s
RECURSIVE AlphaRun(_)
AlphaRun(s) == IF Len(s) > 0 /\ IsAlpha(Ch(s, 1)) THEN Ch(s, 1) \o AlphaRun(DropPrefix(s, 1)) ELSE ""

RECURSIVE StrCmp(_, _)
StrCmp(a, b) ==
  IF Len(a) = 0 /\ Len(b) = 0 THEN 0
  ELSE IF Len(a) = 0 THEN 0 - 1 ELSE IF Len(b) = 0 THEN 1
  ELSE IF AsciiOf(Ch(a, 1)) < AsciiOf(Ch(b, 1)) THEN 0 - 1
  ELSE IF AsciiOf(Ch(a, 1)) > AsciiOf(Ch(b, 1)) THEN 1
  ELSE StrCmp(DropPrefix(a, 1), DropPrefix(b, 1))

RECURSIVE RpmVerCmp(_, _)
RpmVerCmp(a0, b0) ==
  IF a0 = b0 THEN 0
  ELSE LET a == SkipSeps(a0)  b == SkipSeps(b0)
           ta == Len(a) > 0 /\ Ch(a, 1) = "~"
           tb == Len(b) > 0 /\ Ch(b, 1) = "~"
       IN IF ta \/ tb THEN
             (IF ~ta THEN 1 ELSE IF ~tb THEN 0 - 1 ELSE RpmVerCmp(DropPrefix(a, 1), DropPrefix(b, 1)))
          ELSE LET ca == Len(a) > 0 /\ Ch(a, 1) = "^"
                   cb == Len(b) > 0 /\ Ch(b, 1) = "^"
               IN IF ca \/ cb THEN
                     (IF Len(a) = 0 THEN 0 - 1 ELSE IF Len(b) = 0 THEN 1
                      ELSE IF ~ca THEN 1 ELSE IF ~cb THEN 0 - 1
                      ELSE RpmVerCmp(DropPrefix(a, 1), DropPrefix(b, 1)))
                  ELSE IF Len(a) = 0 \/ Len(b) = 0 THEN
                          (IF Len(a) = 0 /\ Len(b) = 0 THEN 0 ELSE IF Len(a) = 0 THEN 0 - 1 ELSE 1)
                  ELSE IF IsDigit(Ch(a, 1)) THEN
                          (LET da == DigitRun(a)  db == DigitRun(b) IN
                           IF Len(db) = 0 THEN 1          \* numeric segments are newer than alpha ones
                           ELSE LET r == CmpNum(da, db) IN
                                IF r # 0 THEN r ELSE RpmVerCmp(DropPrefix(a, Len(da)), DropPrefix(b, Len(db))))
                  ELSE (LET sa == AlphaRun(a)  sb == AlphaRun(b) IN
                        IF Len(sb) = 0 THEN 0 - 1
                        ELSE LET r == StrCmp(sa, sb) IN
                             IF r # 0 THEN r ELSE RpmVerCmp(DropPrefix(a, Len(sa)), DropPrefix(b, Len(sb))))

\* [epoch, version, release] triples
RpmEvrCmp(a, b) ==
  LET e == CmpNum(IF a.epoch = "" THEN "0" ELSE a.epoch, IF b.epoch = "" THEN "0" ELSE b.epoch)
      v == RpmVerCmp(a.version, b.version)
  IN IF e # 0 THEN e ELSE IF v # 0 THEN v ELSE RpmVerCmp(a.release, b.release)
=============================================================================
