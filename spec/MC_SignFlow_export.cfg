SPECIFICATION Spec
CONSTANTS SignDeviations = {}
INVARIANTS ExportBehaviours
CHECK_DEADLOCK FALSE
