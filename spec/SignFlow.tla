------------------------------ MODULE SignFlow ------------------------------
(***************************************************************************)
(* C10 (and the signing part of C06): the signing step of ONE packaging as *)
(* a state machine - who signs (a callback, or a key taken from a key      *)
(* file), which key of the file, and how the step ends.                    *)
(*                                                                         *)
(*   choose -> callback -> embed -> done            (a callback is set)    *)
(*   choose -> load -> unlock -> select -> embed -> done   (key file)      *)
(*                                                                         *)
(* Every step that cannot be done ends the packaging with a signing        *)
(* failure; nothing is ever signed by something else than what was asked   *)
(* for.  Key files are abstract LAYOUTS:                                   *)
(*   OpenPGP (deb debsign / dpkg-sig, rpm)                                 *)
(*     primary_signs       primary key [SC], encryption subkey             *)
(*     offline_primary     primary key [C] only certifies, signing subkey  *)
(*     primary_and_subkey  primary key [SC] and a signing subkey [S]       *)
(*   RSA (apk)                                                             *)
(*     single              one PEM block, the private key                  *)
(*     private_then_public the private key followed by its public key      *)
(*     text_then_private   a line of text, then the private key            *)
(*   both: missing (no such file), not_a_key (a file that holds no key)    *)
(*                                                                         *)
(* TLC checks the invariants on every behaviour (MC_SignFlow.cfg), shows   *)
(* that each named deviation breaks one (MC_SignFlow_asis*.cfg) and        *)
(* exports every terminal state (MC_SignFlow_export.cfg); the harness      *)
(* replays each exported behaviour on the real packagers with keys it      *)
(* generates itself, and Trace_Sig compares the terminal states.           *)
(***************************************************************************)
EXTENDS Integers, Sequences, FiniteSets, TLC, Json, SignKeys

CONSTANT SignDeviations
\* "FallbackToKeyFile"   a failing callback is followed by an attempt with the key file next to it
\* "LastBlockWins"       the last PEM block of an RSA key file is taken for the key
\* "PrimaryMustSign"     a key whose primary key may not sign is not recognised as a signing key
\* "KeyIdDropped"        the requested key id is not handed to the signer (debsign)
\* "DpkgSigIgnoresKeyID" clear-signing always uses the primary key (the open finding KF-C10-4)
\* "SuccessOnSignerError" the packaging goes on when the signer reported an error

Fmts == {"debsign", "dpkg-sig", "rpm", "apk"}
Hows == {"keyfile", "callback_ok", "callback_err"}
PgpLayouts == {"primary_signs", "offline_primary", "primary_and_subkey", "missing", "not_a_key"}
RsaLayouts == {"single", "private_then_public", "text_then_private", "missing", "not_a_key"}
KeyIds == {"none", "primary", "subkey", "unknown"}
Passes == {"none", "right", "wrong"}

VARIABLES argv, pc, signer, outcome
vars == <<argv, pc, signer, outcome>>
(* signer: "" | "callback" | "primary" | "subkey" | "rsa"      outcome: "" | "built" | "signing_failure" *)


Init ==
  /\ argv \in [fmt : Fmts, how : Hows, keyfile_too : BOOLEAN, layout : PgpLayouts \cup RsaLayouts, protected : BOOLEAN, pass : Passes, keyid : KeyIds]
  /\ (IsPGP(argv.fmt) => argv.layout \in PgpLayouts)
  /\ (~IsPGP(argv.fmt) => argv.layout \in RsaLayouts /\ argv.keyid = "none")
  \* canonical arguments: with a callback the key file only matters as "there is one next to it"
  /\ (argv.how # "keyfile" => /\ argv.layout = (IF IsPGP(argv.fmt) THEN "primary_signs" ELSE "single")
                              /\ ~argv.protected /\ argv.pass = "none" /\ argv.keyid = "none")
  /\ (argv.how = "keyfile" => ~argv.keyfile_too)
  /\ (~Usable(argv.layout) => ~argv.protected /\ argv.pass = "none" /\ argv.keyid = "none")
  \* an unprotected key: a passphrase may be in the environment all the same ("right": some passphrase is set)
  /\ (~argv.protected => argv.pass \in {"none", "right"})
  /\ pc = "choose" /\ signer = "" /\ outcome = ""

Fail == outcome' = "signing_failure" /\ pc' = "done" /\ UNCHANGED <<argv, signer>>

(* a callback, if set, is what signs - whatever else is configured *)
Choose ==
  /\ pc = "choose"
  /\ pc' = (IF argv.how = "keyfile" THEN "load" ELSE "callback")
  /\ UNCHANGED <<argv, signer, outcome>>

Callback ==
  /\ pc = "callback"
  /\ IF argv.how = "callback_ok" THEN signer' = "callback" /\ pc' = "embed" /\ UNCHANGED <<argv, outcome>>
     ELSE IF "FallbackToKeyFile" \in SignDeviations /\ argv.keyfile_too THEN pc' = "load" /\ UNCHANGED <<argv, signer, outcome>>
     ELSE IF "SuccessOnSignerError" \in SignDeviations THEN signer' = "" /\ pc' = "embed" /\ UNCHANGED <<argv, outcome>>
     ELSE Fail

Load ==
  /\ pc = "load"
  /\ IF Usable(argv.layout) THEN pc' = "unlock" /\ UNCHANGED <<argv, signer, outcome>> ELSE Fail

Unlock ==
  /\ pc = "unlock"
  /\ IF argv.protected /\ argv.pass # "right" THEN Fail ELSE pc' = "select" /\ UNCHANGED <<argv, signer, outcome>>

(* which key of the file signs: the requested one if it is there and may sign; none requested: the signing subkey if *)
(* there is one, else the primary key if it may sign                                                                 *)
PgpSelect(a) ==
  LET id == IF "KeyIdDropped" \in SignDeviations /\ a.fmt = "debsign" THEN "none" ELSE a.keyid IN
  IF "DpkgSigIgnoresKeyID" \in SignDeviations /\ a.fmt = "dpkg-sig" THEN "primary"
  ELSE IF "PrimaryMustSign" \in SignDeviations /\ ~PrimarySigns(a.layout) THEN "nokey"
  ELSE CASE id = "none" -> IF HasSigningSubkey(a.layout) THEN "subkey" ELSE IF PrimarySigns(a.layout) THEN "primary" ELSE "nokey"
         [] id = "primary" -> IF PrimarySigns(a.layout) THEN "primary" ELSE "nokey"
         [] id = "subkey" -> IF HasSigningSubkey(a.layout) THEN "subkey" ELSE "nokey"
         [] OTHER -> "nokey"
RsaSelect(a) ==
  IF "LastBlockWins" \in SignDeviations /\ a.layout = "private_then_public" THEN "nokey" ELSE "rsa"

Select ==
  /\ pc = "select"
  /\ LET s == IF IsPGP(argv.fmt) THEN PgpSelect(argv) ELSE RsaSelect(argv) IN
     IF s = "nokey" THEN Fail ELSE signer' = s /\ pc' = "embed" /\ UNCHANGED <<argv, outcome>>

Embed ==
  /\ pc = "embed"
  /\ outcome' = "built" /\ pc' = "done"
  /\ UNCHANGED <<argv, signer>>

Next == Choose \/ Callback \/ Load \/ Unlock \/ Select \/ Embed
Spec == Init /\ [][Next]_vars /\ WF_vars(Next)

TypeOK == /\ pc \in {"choose", "callback", "load", "unlock", "select", "embed", "done"}
          /\ signer \in {"", "callback", "primary", "subkey", "rsa"}
          /\ outcome \in {"", "built", "signing_failure"}

Done == pc = "done"

(* ---- the properties ---- *)
\* a package reported as built is signed - by the callback when one is set, otherwise by a key of the key file that may sign
BuiltMeansSigned ==
  (Done /\ outcome = "built") => (IF argv.how = "keyfile" THEN signer \in MaySign(argv) ELSE signer = "callback")
\* a signer that reported an error never yields a package (no second attempt with something that was not asked for)
NoSuccessAfterSignerError == (Done /\ argv.how = "callback_err") => outcome = "signing_failure"
\* the key that was asked for is the key that signs
RequestedKeySigns ==
  (Done /\ outcome = "built" /\ argv.how = "keyfile" /\ argv.keyid # "none") => signer = argv.keyid
\* a key that is not in the file is never silently replaced by another
UnknownKeyFails == (Done /\ argv.how = "keyfile" /\ argv.keyid = "unknown") => outcome = "signing_failure"
\* a usable key, unlocked, with no or a present signing-capable key requested: the signed package is built
ValidSetupBuilds ==
  (Done /\ argv.how = "keyfile" /\ Usable(argv.layout) /\ (argv.protected => argv.pass = "right")
        /\ (IF IsPGP(argv.fmt) THEN (argv.keyid = "none" /\ MaySign(argv) # {}) \/ argv.keyid \in MaySign(argv) ELSE TRUE))
     => outcome = "built"
\* what cannot be loaded or unlocked is a failure
UnusableKeyFails ==
  (Done /\ argv.how = "keyfile" /\ (~Usable(argv.layout) \/ (argv.protected /\ argv.pass # "right"))) => outcome = "signing_failure"
Terminates == <>Done

(* the terminal state as a function of the arguments (what one replayed run is compared with) *)
ExportBehaviours ==
  Done => PrintT(<<"SIGNBEHAVIOUR", ToJson([argv |-> argv, outcome |-> outcome, signer |-> signer])>>)
=============================================================================
