----------------------------- MODULE MC_Layout -----------------------------
(***************************************************************************)
(* Design-level checks of Layout.tla over bounded content lists: the same  *)
(* configuration denotes the same logical tree in every format (rpm minus  *)
(* implied directories, deb plus its changelog), entries addressed to one  *)
(* packager never reach another, configuration-file registration is a      *)
(* bijection with the config-typed payload files, the slot and             *)
(* architecture tables are functions.                                      *)
(***************************************************************************)
EXTENDS Layout

CONSTANTS MaxLen, Dsts, Tags

VARIABLE es

F(p, k, mode, sz) == [p |-> p, kind |-> k, mode |-> mode, mt |-> 1500000000, size |-> sz, link |-> "", tk |-> "", cid |-> "c" \o p]
MCTree ==
  { F("s", "dir", 493, 0), F("s/f1", "file", 420, 3), F("s/f2.conf", "file", 384, 5),
    F("s/d", "dir", 448, 0), F("s/d/g1", "file", 493, 7),
    [p |-> "s/lnk", kind |-> "link", mode |-> 511, mt |-> 1500000000, size |-> 0, link |-> "f1", tk |-> "file", cid |-> ""] }

Shapes == { <<"file", "s/f1">>, <<"config", "s/f2.conf">>, <<"config|noreplace", "s/*.conf">>, <<"file", "s">>, <<"dir", "">>,
            <<"symlink", "tgt">>, <<"tree", "s/d">>, <<"ghost", "">>, <<"doc", "s/f1">> }
Options == { [type |-> sh[1], src |-> sh[2], dst |-> d, tag |-> t, fi |-> NoFi] : sh \in Shapes, d \in Dsts, t \in Tags }
Lists == UNION { [1..n -> Options] : n \in 0..MaxLen }

Cfg(l, chg) == [name |-> "p", has_changelog |-> chg, entries |-> l, umask |-> 18, noglob |-> FALSE, pmt |-> 1600000000, pmtset |-> TRUE]

Init == es \in Lists
Next == UNCHANGED es
Spec == Init /\ [][Next]_es

PayloadPaths(f, c) ==
  LET r == PlanFor(c, MCTree, f) IN
  IF r[1] # "ok" THEN {<<<<"failed">>, r[1]>>} ELSE { <<KeyPath(k), ExpKind(r[2][k])>> : k \in { x \in DOMAIN r[2] : InPayloadK(f, r[2], x) } }
ImplicitPaths(f, c) ==
  LET r == PlanFor(c, MCTree, f) IN
  IF r[1] # "ok" THEN {} ELSE { <<KeyPath(k), "dir">> : k \in { x \in DOMAIN r[2] : r[2][x].type = "implicit dir" } }

Untagged == \A i \in 1..Len(es) : es[i].tag = "" /\ es[i].type \notin RpmOnly

SameTreeAcrossFormats ==
  Untagged =>
    LET c == Cfg(es, FALSE) IN
    /\ PayloadPaths("deb", c) = PayloadPaths("apk", c)
    /\ PayloadPaths("deb", c) = PayloadPaths("ipk", c)
    /\ PayloadPaths("deb", c) = PayloadPaths("archlinux", c)
    /\ (PlanFor(c, MCTree, "deb")[1] = "ok" =>
          PayloadPaths("rpm", c) = PayloadPaths("deb", c) \ ImplicitPaths("deb", c))

NoForeignContent ==
  \A f \in Formats :
    LET r == PlanFor(Cfg(es, FALSE), MCTree, f) IN
    r[1] = "ok" => \A k \in DOMAIN r[2] : r[2][k].tag \in {"", f}

RpmOnlyTypesOnlyInRpm ==
  \A f \in Formats \ {"rpm"} :
    LET r == PlanFor(Cfg(es, FALSE), MCTree, f) IN
    r[1] = "ok" => \A k \in DOMAIN r[2] : r[2][k].type \notin RpmOnly

ChangelogOnlyInDeb ==
  \A f \in Formats :
    LET r == PlanFor(Cfg(es, TRUE), MCTree, f) IN
    r[1] = "ok" => ((\E k \in DOMAIN r[2] : r[2][k].type = "debian changelog") <=> f = "deb")

ConfigEntriesArePayloadFiles ==
  \A f \in Formats :
    LET r == PlanFor(Cfg(es, FALSE), MCTree, f) IN
    r[1] = "ok" => \A k \in DOMAIN r[2] : r[2][k].type \in ConfigTypes => (ExpKind(r[2][k]) = "file" /\ InPayload(f, r[2][k]))

TablesAreFunctions ==
  /\ SlotTableInjective
  /\ \A f \in Formats : \A p, q \in ArchTbl(f) : p[1] = q[1] => p = q
  /\ \A t \in ConfigTypes : RpmFlagOf(t) % 2 = 1
  /\ \A t \in {"ghost", "doc", "licence", "license", "readme", "file"} : RpmFlagOf(t) % 2 = 0
=============================================================================
