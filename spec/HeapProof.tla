------------------------------ MODULE HeapProof ------------------------------
(***************************************************************************)
(* TLAPS proof for the intended design of Heap.tla (every operation works  *)
(* on private copies): for ANY set of processes, ANY sequence of shared    *)
(* cells and ANY schedule, the configuration is never written and no two   *)
(* processes ever have conflicting accesses enabled (TLC checks 3          *)
(* processes over 3 cells).                                                *)
(***************************************************************************)
EXTENDS Heap, TLAPS

ASSUME Intended == CopyFileInfoOnPrepare = TRUE /\ ClonePointersOnGet = TRUE

LEMMA AllPrivate == \A c : UsesPrivate(c)
  BY Intended DEF UsesPrivate

LEMMA NoWriteAccess == \A p \in Procs : \A a \in Access(p) : a[2] = FALSE
  BY Intended, AllPrivate DEF Access, UsesPrivate

THEOREM RaceFreeAlways == RaceFree
  BY NoWriteAccess DEF RaceFree

LEMMA InitUnchanged == Init => ConfigUnchanged
  BY DEF Init, ConfigUnchanged

LEMMA StepUnchanged == ConfigUnchanged /\ [Next]_vars => ConfigUnchanged'
<1> SUFFICES ASSUME ConfigUnchanged, [Next]_vars PROVE ConfigUnchanged'
  OBVIOUS
<1>1 CASE UNCHANGED vars
  BY <1>1 DEF vars, ConfigUnchanged
<1>2 ASSUME NEW p \in Procs, Step(p) PROVE shared' = shared
  <2>1 CASE Get(p)
    BY <2>1, Intended DEF Get
  <2>2 CASE Test(p)
    BY <2>2 DEF Test
  <2>3 CASE Set(p)
    BY <2>3, Intended, AllPrivate DEF Set, UsesPrivate
  <2>4 CASE Ser(p)
    BY <2>4 DEF Ser
  <2> QED BY <1>2, <2>1, <2>2, <2>3, <2>4 DEF Step
<1> QED BY <1>1, <1>2 DEF Next, ConfigUnchanged

THEOREM Isolation == Spec => [](ConfigUnchanged /\ RaceFree)
<1> QED BY InitUnchanged, StepUnchanged, RaceFreeAlways, PTL DEF Spec
=============================================================================
