-------------------------------- MODULE Plan --------------------------------
(***************************************************************************)
(* The planner as a state machine: one Step per raw content entry.  The    *)
(* operators (selection, source denotation, destination mapping, parent    *)
(* closure, collision rule, invariants over maps) live in PlanOps.tla.     *)
(***************************************************************************)
EXTENDS PlanOps

(* ---- the planner as a state machine ----------------------------------- *)
VARIABLES ctx, todo, done, map, status
pvars == <<ctx, todo, done, map, status>>

PlanInit(c, es) ==
  /\ ctx = c /\ todo = es /\ done = 0 /\ map = EmptyMap /\ status = "run"

Step ==
  /\ status = "run" /\ done < Len(todo)
  /\ LET r == ApplyEntry(ctx, map, todo[done + 1]) IN
       /\ map' = r[2]
       /\ status' = IF r[1] = "ok" THEN "run" ELSE r[1]
  /\ done' = done + 1
  /\ UNCHANGED <<ctx, todo>>

Finish ==
  /\ status = "run" /\ done = Len(todo)
  /\ status' = "ok"
  /\ UNCHANGED <<ctx, todo, done, map>>

PlanNext == Step \/ Finish

(* ---- invariants (C05) -------------------------------------------------- *)
PlanInv == PlanInvOf(ctx, map)

(* an occupied destination never changes hands, except implied -> explicit dir *)
NoSilentReplace ==
  [][ \A k \in DOMAIN map : k \in DOMAIN map' /\
        (map'[k] = map[k] \/ (map[k].type = "implicit dir" /\ map'[k].type = "dir")) ]_pvars

(* order of emission: parents first (a plan is listed in destination order) *)
=============================================================================
