SPECIFICATION TraceSpec
CONSTANTS Deviations = {}
CONSTRAINT HighWater
POSTCONDITION Accepted
CHECK_DEADLOCK FALSE
