SPECIFICATION Spec
CONSTANTS SignDeviations = {"LastBlockWins"}
INVARIANTS ValidSetupBuilds
CHECK_DEADLOCK FALSE
