SPECIFICATION Spec
CONSTANTS
  Procs <- MCProcs
  FmtOf <- MCFmtOf
  Cells <- MCCells
  CopyFileInfoOnPrepare = FALSE
  ClonePointersOnGet = FALSE
  SequentialOnly = TRUE
INVARIANTS OutEqualsFresh ConfigUnchanged
CHECK_DEADLOCK FALSE
