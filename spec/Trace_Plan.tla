----------------------------- MODULE Trace_Plan -----------------------------
(***************************************************************************)
(* Trace validation for the planner.  The harness calls the real           *)
(* files.PrepareForPackager on every prefix of a raw content list; each    *)
(* `step` event is matched with the Step action of Plan.tla, the state the *)
(* specification reaches is compared with the state the code returned, and *)
(* the invariants of C05 are evaluated on both.                            *)
(*                                                                         *)
(* Value mismatches never block: they are collected in viol (REQ clauses:  *)
(* what property C05 states) or drift (DOC clauses: what the implementation*)
(* additionally does).  Only structural impossibility blocks.              *)
(***************************************************************************)
EXTENDS Plan, Json

Trace == ndJsonDeserialize("trace.ndjson")

VARIABLES l, cid, viol, drift, merr, ncases
tvars == <<l, cid, viol, drift, merr, ncases>>

IsEv(e) == l <= Len(Trace) /\ Trace[l].ev = e /\ l' = l + 1

TraceInit ==
  /\ l = 1 /\ cid = 0 /\ viol = {} /\ drift = {} /\ merr = {} /\ ncases = 0
  /\ ctx = [pk |-> "", tree |-> {}, umask |-> 0, noglob |-> FALSE, pmt |-> 0, pmtset |-> FALSE]
  /\ todo = <<>> /\ done = 0 /\ map = EmptyMap /\ status = "idle"

TraceCase ==
  /\ IsEv("case")
  /\ LET c == Trace[l] IN
       /\ cid' = c.id
       /\ ctx' = [pk |-> c.pk, tree |-> SeqToSet(c.tree), umask |-> c.umask, noglob |-> c.noglob, pmt |-> c.pmt, pmtset |-> c.pmt # 0]
       /\ todo' = c.entries
  /\ done' = 0 /\ map' = EmptyMap /\ status' = "run"
  /\ ncases' = ncases + 1
  /\ UNCHANGED <<viol, drift, merr>>

(* ---- comparison of an observed plan with the specification's map ------- *)
ExpDst(m, k) == IF IsDirEnt(m[k]) THEN DirStr(KeyPath(k)) ELSE PathStr(KeyPath(k))
SrcMatters(t) == t \in {"file", "config", "config|noreplace", "config|missingok", "symlink",
                        "doc", "licence", "license", "readme", "debian changelog"}

ObsKeyPath(x) == Norm(x.dst)
ObsDirLike(x) == x.type \in DirTypes

Clauses(obs, m, st) ==
  LET plan == obs.plan
      N == Len(plan)
      odst == { plan[i].dst : i \in 1..N }
      edst == { ExpDst(m, k) : k \in DOMAIN m }
      both == st = "run" /\ obs.status = "run"
      expOf(d) == CHOOSE k \in DOMAIN m : ExpDst(m, k) = d
      common == { i \in 1..N : plan[i].dst \in edst }
      req ==
        (IF obs.status # st THEN {"status"} ELSE {})
        \cup (IF both /\ odst # edst THEN {"dst_set"} ELSE {})
        \cup (IF both /\ \E i \in common : plan[i].type # m[expOf(plan[i].dst)].type THEN {"entry_type"} ELSE {})
        \cup (IF both /\ \E i \in common : SrcMatters(plan[i].type) /\ plan[i].src # m[expOf(plan[i].dst)].src
              THEN {"entry_src"} ELSE {})
        \cup (IF both /\ \E i \in common : plan[i].tag # m[expOf(plan[i].dst)].tag THEN {"entry_tag"} ELSE {})
        \* the property evaluated directly on what the code returned
        \cup (IF obs.status = "run" /\ \E i, j \in 1..N : i # j /\ ObsKeyPath(plan[i]) = ObsKeyPath(plan[j])
              THEN {"unique_destinations"} ELSE {})
        \cup (IF obs.status = "run" /\ \E i \in 1..N :
                   \/ plan[i].dst # (IF ObsDirLike(plan[i]) THEN NormDirStr(plan[i].dst) ELSE NormFileStr(plan[i].dst))
                   \/ (ObsKeyPath(plan[i]) = <<>> /\ ~ObsDirLike(plan[i]))      \* (only a directory can be the root)
              THEN {"absolute_clean"} ELSE {})
        \cup (IF obs.status = "run" /\ \E i \in 1..N : \E a \in Ancestors(ObsKeyPath(plan[i])) :
                   ~\E j \in 1..(i - 1) : ObsKeyPath(plan[j]) = a /\ ObsDirLike(plan[j])
              THEN {"parents_first"} ELSE {})
        \cup (IF obs.status = "run" /\ \E i \in 1..N :
                   ~(Relevant(ctx.pk, [type |-> plan[i].type, tag |-> plan[i].tag]))
              THEN {"relevant_only"} ELSE {})
        \cup (IF ~obs.stable THEN {"deterministic"} ELSE {})
        \cup (IF ~obs.facade THEN {"facade_agrees"} ELSE {})
        \* the plan obtained through a parsed configuration (contents + override blocks, effective settings of the other
        \* formats asked first) is the plan of the list itself
        \cup (IF obs.viaconfig = "differs" THEN {"config_route_agrees"} ELSE {})
      doc ==
        (IF both /\ \E i \in common : plan[i].owner # m[expOf(plan[i].dst)].owner THEN {"owner"} ELSE {})
        \cup (IF both /\ \E i \in common : plan[i].group # m[expOf(plan[i].dst)].group THEN {"group"} ELSE {})
        \cup (IF both /\ \E i \in common : plan[i].type # "symlink" /\ plan[i].type \notin RpmOnly
                      /\ plan[i].mode # m[expOf(plan[i].dst)].mode THEN {"mode"} ELSE {})
        \cup (IF both /\ \E i \in common : plan[i].type # "symlink" /\ plan[i].mt # m[expOf(plan[i].dst)].mt THEN {"mtime"} ELSE {})
        \cup (IF both /\ \E i \in common : plan[i].type \in {"file", "config", "config|noreplace", "config|missingok"}
                      /\ plan[i].size # m[expOf(plan[i].dst)].size THEN {"size"} ELSE {})
  IN <<req, doc>>

(* a spelling that denotes the root itself is not a destination; outside REQ *)
RootCase == \E i \in 1..Len(todo) : Norm(todo[i].dst) = <<>> /\ todo[i].type \notin {"dir", "tree"}

Cap == 300   \* bound the collectors: they are part of every state
Record(cl) ==
  /\ viol'  = IF RootCase \/ Cardinality(viol) >= Cap THEN viol ELSE viol \cup { <<cid, l, n>> : n \in cl[1] }
  /\ drift' = IF Cardinality(drift) >= Cap THEN drift
              ELSE drift \cup { <<cid, l, n>> : n \in (IF RootCase THEN {} ELSE cl[2]) }

TraceStep ==
  /\ IsEv("step")
  /\ Trace[l].k = done + 1
  /\ Step
  /\ Record(Clauses(Trace[l], map', status'))
  \* the design invariants, evaluated on the state the specification reaches
  /\ merr' = IF RootCase \/ PlanInvOf(ctx, map') THEN merr ELSE merr \cup {<<cid, l, "PlanInv">>}
  /\ UNCHANGED <<cid, ncases>>

(* the code went on after the specification had already rejected the list *)
TraceStepBeyond ==
  /\ IsEv("step")
  /\ status \notin {"run", "idle"}
  /\ Record(<<{"status"}, {}>>)
  /\ UNCHANGED <<cid, merr, ncases, pvars>>

(* nfpm.Validate on the list of the case: an error iff the list cannot be planned for at least one registered packager *)
(* (a collision may exist for one format only: ghost / doc / licence / readme are rpm's, entries may be addressed), and  *)
(* the answer is the same on every call                                                                                   *)
AllPackagers == {"deb", "rpm", "apk", "archlinux", "ipk"}
TraceValidate ==
  /\ IsEv("validate")
  /\ LET e == Trace[l]
         bad == \E pk \in AllPackagers : PlanOf([ctx EXCEPT !.pk = pk], todo)[1] # "ok"
     IN Record(<<(IF e.errors \notin {0, e.calls} THEN {"validate_deterministic"} ELSE {})
                 \cup (IF bad /\ e.errors # e.calls THEN {"validate_reports_every_format"} ELSE {})
                 \cup (IF ~bad /\ e.errors # 0 THEN {"validate_accepts_plannable_list"} ELSE {}), {}>>)
  /\ status' = "validated" /\ UNCHANGED <<cid, merr, ncases, ctx, todo, done, map>>

TraceEnd ==
  /\ IsEv("endcase")
  /\ \/ status # "run"
     \/ done = Len(todo)
     \* the code itself stopped at the previous step (a difference the `status` clause of that step has recorded)
     \/ (l > 1 /\ Trace[l - 1].ev = "step" /\ Trace[l - 1].status # "run")
  /\ UNCHANGED <<cid, viol, drift, merr, ncases, pvars>>

TraceEof ==
  /\ IsEv("eof")
  /\ PrintT(<<"VIOLSET", ToJson(viol)>>)
  /\ PrintT(<<"DRIFTSET", ToJson(drift)>>)
  /\ PrintT(<<"MERRSET", ToJson(merr)>>)
  /\ PrintT(<<"NCASES", ncases>>)
  /\ TLCSet(1, l)
  /\ UNCHANGED <<cid, viol, drift, merr, ncases, pvars>>

TraceNext == TraceCase \/ TraceStep \/ TraceStepBeyond \/ TraceValidate \/ TraceEnd \/ TraceEof

TraceSpec == TraceInit /\ [][TraceNext]_<<pvars, tvars>>

HighWater == TLCSet(2, l) \* position reached (constraint, -workers 1)
Accepted == TLCGet(1) = Len(Trace)
=============================================================================
