------------------------------- MODULE Layout -------------------------------
(***************************************************************************)
(* What a package must contain, per format, given the abstract             *)
(* configuration c, the source tree and the plan Plan(c.contents, f).      *)
(*                                                                         *)
(* Every comparison is a NAMED CLAUSE "Cxx.name".  REQ clauses state what  *)
(* the listed property Cxx says; DOC clauses ("DOC.name") describe what    *)
(* the implementation additionally does and never decide a verdict.        *)
(* An operator XxxClauses(...) returns the set of clause names that FAIL   *)
(* on the observed events evs (a sequence of trace records of one package  *)
(* in stream order).                                                       *)
(***************************************************************************)
EXTENDS PlanOps, Arch

ConfigTypes == {"config", "config|noreplace", "config|missingok"}

(* ---- the plan for a format -------------------------------------------- *)
EffUmask(c) == IF c.umask = 0 THEN 2 ELSE c.umask
CtxOf(c, tree, f) == [pk |-> f, tree |-> tree, umask |-> EffUmask(c), noglob |-> c.noglob, pmt |-> c.pmt, pmtset |-> c.pmtset]

ChangelogEntry(c) ==
  [type |-> "debian changelog", src |-> "", dst |-> "/usr/share/doc/" \o c.name \o "/changelog.Debian.gz",
   tag |-> "", fi |-> NoFi]

EntriesFor(c, f) == IF f = "deb" /\ c.has_changelog THEN Append(c.entries, ChangelogEntry(c)) ELSE c.entries
PlanFor(c, tree, f) == PlanOf(CtxOf(c, tree, f), EntriesFor(c, f))

(* ---- helpers over event sequences --------------------------------------- *)
Idx(evs, P(_)) == { i \in 1..Len(evs) : P(evs[i]) }
RECURSIVE SumSizes(_, _)
SumSizes(evs, S) == IF S = {} THEN 0 ELSE LET i == CHOOSE x \in S : TRUE IN evs[i].size + SumSizes(evs, S \ {i})

HasMeta(evs, in, key) == \E i \in 1..Len(evs) : evs[i].ev = "meta" /\ evs[i].in = in /\ evs[i].key = key
MetaVals(evs, in, key) == evs[CHOOSE i \in 1..Len(evs) : evs[i].ev = "meta" /\ evs[i].in = in /\ evs[i].key = key].values
Meta1(evs, in, key) == IF HasMeta(evs, in, key) /\ Len(MetaVals(evs, in, key)) >= 1 THEN MetaVals(evs, in, key)[1] ELSE ""
HasStruct(evs, key) == \E i \in 1..Len(evs) : evs[i].ev = "struct" /\ evs[i].key = key
StructVal(evs, key) == evs[CHOOSE i \in 1..Len(evs) : evs[i].ev = "struct" /\ evs[i].key = key].value

SpecialNames == {".PKGINFO", ".MTREE", ".INSTALL"}
IsPayloadEv(f, e) ==
  IF f = "rpm" THEN e.ev = "rpmfile"
  ELSE e.ev = "tar" /\ e.in = "data" /\ ~(f = "archlinux" /\ e.name \in SpecialNames)

(* unified view of one observed payload entry *)
ObsRec(f, e) ==
  IF f = "rpm"
  THEN LET t == e.mode \div 4096 IN
       [path |-> Norm(e.name),
        kind |-> IF BitAnd(e.flags, 64) = 64 THEN "ghost"
                 ELSE CASE t = 8 -> "file" [] t = 4 -> "dir" [] t = 10 -> "link" [] OTHER -> "other",
        mode |-> e.mode % 4096, owner |-> e.user, group |-> e.group, mt |-> e.mt, cid |-> e.cid,
        link |-> e.linkto, size |-> e.size]
  ELSE [path |-> Norm(e.name),
        kind |-> CASE e.type = "0" -> "file" [] e.type = "5" -> "dir" [] e.type = "2" -> "link" [] OTHER -> "other",
        mode |-> e.mode,
        owner |-> IF e.uname = "" /\ e.uid = 0 THEN "root" ELSE e.uname,
        group |-> IF e.gname = "" /\ e.gid = 0 THEN "root" ELSE e.gname,
        mt |-> e.mt, cid |-> e.cid, link |-> e.link, size |-> e.size]

CidOf(tree, src) ==
  LET S == { n \in tree : n.kind = "file" /\ (n.p = src \/ \E l \in tree : l.kind = "link" /\ l.p = src /\ l.rt # "" /\ l.rt = n.p) } IN
  IF S = {} THEN "" ELSE (CHOOSE n \in S : TRUE).cid

ExpKind(x) == IF IsDirEnt(x) THEN "dir" ELSE IF x.type = "symlink" THEN "link"
              ELSE IF x.type = "ghost" THEN "ghost" ELSE "file"

InPayload(f, x) == IF f = "rpm" THEN x.type # "implicit dir" ELSE x.type # "ghost"
\* an rpm never lists the root directory itself (the rpm library drops an entry named "/": rpm does not allow one);
\* deb and ipk write it as "./"; apk and archlinux name members relative to the root without a prefix, where the root
\* itself has no name: no member (a member with an empty name is no well-formed archive)
InPayloadK(f, m, k) == InPayload(f, m[k]) /\ ~(f \in {"rpm", "apk", "archlinux"} /\ KeyPath(k) = <<>>)

(* ---- C01: payload fidelity ---------------------------------------------- *)
PayloadClauses(f, c, tree, m, evs) ==
  LET P == Idx(evs, LAMBDA e : IsPayloadEv(f, e))
      obs == { ObsRec(f, evs[i]) : i \in P }
      opaths == { o.path : o \in obs }
      K == { k \in DOMAIN m : InPayloadK(f, m, k) }
      epaths == { KeyPath(k) : k \in K }
      keyOf(p) == CHOOSE k \in K : KeyPath(k) = p
      common == { o \in obs : o.path \in epaths }
      X(o) == m[keyOf(o.path)]
      files == { o \in common : ExpKind(X(o)) = "file" /\ o.kind = "file" }
      dirs  == { o \in common : ExpKind(X(o)) = "dir" /\ o.kind = "dir" }
      links == { o \in common : ExpKind(X(o)) = "link" /\ o.kind = "link" }
      \* a ghost (rpm): no bytes, but the attributes it is declared with - mode 0644 unless one is given
      ghosts == { o \in common : ExpKind(X(o)) = "ghost" /\ o.kind = "ghost" }
      hasOwner(o) == ~(f \in {"apk", "archlinux", "ipk"} /\ o.kind = "link")
      req ==
        (IF opaths # epaths THEN {"C01.payload_exact"} ELSE {})
        \cup (IF \E o \in common : o.kind # ExpKind(X(o)) THEN {"C01.entry_kind"} ELSE {})
        \cup (IF \E o \in files : X(o).type # "debian changelog" /\ o.cid # CidOf(tree, X(o).src) THEN {"C01.file_bytes"} ELSE {})
        \cup (IF \E o \in files : X(o).type # "debian changelog" /\ o.mode # X(o).mode THEN {"C01.file_mode"} ELSE {})
        \cup (IF \E o \in files : o.owner # X(o).owner THEN {"C01.file_owner"} ELSE {})
        \cup (IF \E o \in files : o.group # X(o).group THEN {"C01.file_group"} ELSE {})
        \cup (IF \E o \in files : X(o).type # "debian changelog" /\ (X(o).mt # 0 \/ c.pmtset) /\ o.mt # X(o).mt THEN {"C01.file_mtime"} ELSE {})
        \cup (IF \E o \in dirs : o.mode # X(o).mode THEN {"C01.dir_mode"} ELSE {})
        \cup (IF \E o \in dirs : o.owner # X(o).owner THEN {"C01.dir_owner"} ELSE {})
        \cup (IF \E o \in dirs : o.group # X(o).group THEN {"C01.dir_group"} ELSE {})
        \cup (IF \E o \in links : o.link # X(o).src THEN {"C01.link_target"} ELSE {})
        \cup (IF \E o \in ghosts : o.mode # (IF X(o).mode = 0 THEN 420 ELSE X(o).mode) THEN {"C01.ghost_mode"} ELSE {})
        \cup (IF \E o \in ghosts : o.owner # X(o).owner \/ o.group # X(o).group THEN {"C01.ghost_owner"} ELSE {})
      doc ==
        (IF \E o \in dirs : X(o).mt # 0 /\ o.mt # X(o).mt THEN {"DOC.dir_mtime"} ELSE {})
        \cup (IF \E o \in links : hasOwner(o) /\ o.owner # X(o).owner THEN {"DOC.link_owner"} ELSE {})
        \cup (IF \E o \in files : o.size # X(o).size /\ X(o).type # "debian changelog" THEN {"DOC.file_size"} ELSE {})
  IN <<req, doc>>

(* C13 (second half): entries addressed to ANOTHER packager stay in theirs.  The paths that only the foreign-addressed     *)
(* entries (and their implied parents) would bring - the plan of the list with every tag erased minus the plan for f -  *)
(* must not be in the payload of f.                                                                                       *)
ObsPaths(f, evs) == { ObsRec(f, evs[i]).path : i \in Idx(evs, LAMBDA e : IsPayloadEv(f, e)) }
ForeignLeak(f, c, tree, m, evs) ==
  LET hasForeign == \E i \in 1..Len(c.entries) : c.entries[i].tag \notin {"", f}
      cAll == [c EXCEPT !.entries = [i \in 1..Len(c.entries) |-> [c.entries[i] EXCEPT !.tag = ""]]]
      pAll == PlanFor(cAll, tree, f)
      own == { KeyPath(k) : k \in { x \in DOMAIN m : InPayloadK(f, m, x) } }
      all == { KeyPath(k) : k \in { x \in DOMAIN pAll[2] : InPayloadK(f, pAll[2], x) } }
  IN hasForeign /\ pAll[1] = "ok" /\ (ObsPaths(f, evs) \cap (all \ own)) # {}

(* ---- C04: structure ------------------------------------------------------ *)
OuterNames(evs) == [ i \in 1..Len(SelectSeq(evs, LAMBDA e : e.ev = "outer")) |-> SelectSeq(evs, LAMBDA e : e.ev = "outer")[i].name ]
OuterEvs(evs) == SelectSeq(evs, LAMBDA e : e.ev = "outer")
TarSeq(evs, in) == SelectSeq(evs, LAMBDA e : e.ev = "tar" /\ e.in = in)

DebDataName(comp) == CASE comp \in {"", "gzip"} -> "data.tar.gz" [] comp = "xz" -> "data.tar.xz"
                       [] comp = "zstd" -> "data.tar.zst" [] comp = "none" -> "data.tar" [] OTHER -> "?"
DebComp(comp) == IF comp = "" THEN "gzip" ELSE comp

(* names in one tar: unique, relative, no "..", directories end in "/", parents precede children *)
TarNameClauses(f, t, dotted, skip) ==
  LET N == Len(t)
      nm(i) == t[i].name
      real == { i \in 1..N : nm(i) \notin skip }
      toks(i) == SelectSeq(Tokens(nm(i)), LAMBDA x : x # "")
  IN (IF \E i, j \in real : i # j /\ Norm(nm(i)) = Norm(nm(j)) THEN {"C04.names_unique"} ELSE {})
     \cup (IF \E i \in real : HasPrefix(nm(i), "/") \/ (dotted /\ ~HasPrefix(nm(i), "./")) \/ (~dotted /\ HasPrefix(nm(i), "./"))
           THEN {"C04.names_relative"} ELSE {})
     \cup (IF \E i \in real : \E j \in 1..Len(toks(i)) : toks(i)[j] = ".." THEN {"C04.no_dotdot"} ELSE {})
     \cup (IF \E i \in real : (t[i].type = "5") # HasSuffix(nm(i), "/") /\ Norm(nm(i)) # <<>> THEN {"C04.dir_trailing_slash"} ELSE {})
     \* a member that is not a regular file has no body: a non-zero size makes readers skip into the next header
     \cup (IF \E i \in real : t[i].type # "0" /\ t[i].size # 0 THEN {"C04.nonregular_member_has_no_size"} ELSE {})
     \* every ancestor of a member is itself a member, a DIRECTORY, and comes before it
     \cup (IF \E i \in real : \E a \in Ancestors(Norm(nm(i))) : ~(\E j \in real : j < i /\ Norm(nm(j)) = a /\ t[j].type = "5")
           THEN {"C04.parents_first"} ELSE {})

RECURSIVE IsSortedStr(_)
IsSortedStr(q) == Len(q) <= 1 \/ (StrCmp(q[1], q[2]) <= 0 /\ IsSortedStr(Tail(q)))

Align8(n) == ((n + 7) \div 8) * 8

StructClauses(f, c, scriptsConfigured, evs) ==
  LET on == OuterNames(evs)
      oe == OuterEvs(evs)
      dec == IF \E i \in 1..Len(evs) : evs[i].ev = "decode_error" THEN {"C04.readable_end_to_end"} ELSE {}
      \* GNU tar / GNU ar, given the same bytes, list the same members as the decoder the other clauses rely on
      foreign == IF \E i \in 1..Len(evs) : evs[i].ev = "struct" /\ HasPrefix(evs[i].key, "foreign:") /\ evs[i].value \notin {"ok", "na"}
                 THEN {"C04.foreign_reader_sees_same_members"} ELSE {}
  IN dec \cup foreign \cup
  CASE f = "deb" ->
         (IF ~(Len(on) \in {3, 4} /\ on[1] = "debian-binary" /\ on[2] = "control.tar.gz"
               /\ on[3] \in {"data.tar.gz", "data.tar.xz", "data.tar.zst", "data.tar"}
               /\ (Len(on) = 4 => HasPrefix(on[4], "_gpg")))
          THEN {"C04.deb_outer_order"} ELSE {})
         \* the signature member is there iff signing is configured
         \cup (IF Len(on) \in {3, 4} /\ (Len(on) = 4) # c.sig.deb_key THEN {"C04.deb_signature_member_iff_signed"} ELSE {})
         \cup (IF Len(oe) >= 1 /\ oe[1].text # "2.0\n" THEN {"C04.debian_binary"} ELSE {})
         \cup (IF Len(on) >= 3 /\ on[3] # DebDataName(c.deb.compression) THEN {"C04.deb_data_member_name"} ELSE {})
         \cup (IF Len(oe) >= 3 /\ oe[3].comp # DebComp(c.deb.compression) THEN {"C04.deb_data_compression"} ELSE {})
         \cup (IF Len(oe) >= 2 /\ oe[2].comp # "gzip" THEN {"C04.deb_control_is_gzip"} ELSE {})     \* whatever the data member's compression
         \cup (IF HasStruct(evs, "dpkg_deb_accepts") /\ StructVal(evs, "dpkg_deb_accepts") # "true" THEN {"C04.dpkg_deb_accepts"} ELSE {})
         \cup TarNameClauses(f, TarSeq(evs, "data"), TRUE, {})
         \cup TarNameClauses(f, TarSeq(evs, "control"), TRUE, {})
    [] f = "ipk" ->
         (IF on # <<"./debian-binary", "./control.tar.gz", "./data.tar.gz">> THEN {"C04.ipk_members"} ELSE {})
         \cup (IF Len(oe) >= 1 /\ oe[1].text # "2.0\n" THEN {"C04.debian_binary"} ELSE {})
         \cup (IF \E i \in 1..Len(oe) : i >= 2 /\ oe[i].comp # "gzip" THEN {"C04.ipk_inner_gzip"} ELSE {})
         \cup TarNameClauses(f, TarSeq(evs, "data"), TRUE, {})
         \cup TarNameClauses(f, TarSeq(evs, "control"), TRUE, {})
    [] f = "apk" ->
         (IF ~(on = <<"control", "data">> \/ on = <<"signature", "control", "data">>) THEN {"C04.apk_segments"} ELSE {})
         \cup (IF on # <<>> /\ (on[1] = "signature") # c.sig.apk_key THEN {"C04.apk_signature_segment_iff_signed"} ELSE {})
         \cup (IF \E i \in 1..Len(oe) : oe[i].name \in {"control", "signature"} /\ oe[i].eoa THEN {"C04.apk_cut_segment"} ELSE {})
         \cup (IF \E i \in 1..Len(oe) : oe[i].name = "data" /\ ~oe[i].eoa THEN {"C04.apk_full_data_tar"} ELSE {})
         \cup (IF \E i \in 1..Len(oe) : oe[i].name = "control" /\ oe[i].first # ".PKGINFO" THEN {"C04.apk_pkginfo_first"} ELSE {})
         \cup (IF \E i \in 1..Len(oe) : oe[i].rawlen % 512 # 0 THEN {"C04.apk_segment_aligned"} ELSE {})
         \* the reader sees the concatenation of the segments as one tar stream: every member of every segment, no stray block
         \cup (IF HasStruct(evs, "apk_whole_stream") /\ StructVal(evs, "apk_whole_stream") # "ok" THEN {"C04.apk_concatenation_is_one_tar"} ELSE {})
         \cup TarNameClauses(f, TarSeq(evs, "data"), FALSE, {})
    [] f = "archlinux" ->
         LET t == TarSeq(evs, "data")
             names == [i \in 1..Len(t) |-> t[i].name]
             pos(n) == IF \E i \in 1..Len(t) : names[i] = n THEN CHOOSE i \in 1..Len(t) : names[i] = n ELSE 0
             lastPayload == IF \E i \in 1..Len(t) : names[i] \notin SpecialNames
                            THEN CHOOSE i \in 1..Len(t) : names[i] \notin SpecialNames /\ \A j \in 1..Len(t) : names[j] \notin SpecialNames => j <= i
                            ELSE 0
             mt == SelectSeq(evs, LAMBDA e : e.ev = "mtree")
         IN (IF HasStruct(evs, "comp:outer") /\ StructVal(evs, "comp:outer") # "zstd" THEN {"C04.arch_zstd"} ELSE {})
            \cup (IF ~(pos(".PKGINFO") > lastPayload /\ pos(".MTREE") > pos(".PKGINFO")) THEN {"C04.arch_members"} ELSE {})
            \cup (IF (pos(".INSTALL") # 0) # scriptsConfigured THEN {"C04.install_iff_scripts"} ELSE {})
            \cup (IF pos(".INSTALL") # 0 /\ pos(".INSTALL") < pos(".MTREE") THEN {"C04.arch_members"} ELSE {})
            \cup (IF Len(mt) = 0 \/ mt[1].path # "./.PKGINFO" THEN {"C04.mtree_pkginfo_first"} ELSE {})
            \cup TarNameClauses(f, t, FALSE, SpecialNames)
    [] f = "rpm" ->
         LET files == SelectSeq(evs, LAMBDA e : e.ev = "rpmfile")
             hdrNames == [i \in 1..Len(files) |-> files[i].name]
             nonGhost == SelectSeq(files, LAMBDA e : BitAnd(e.flags, 64) = 0)
             ngNames == [i \in 1..Len(nonGhost) |-> nonGhost[i].name]
             cp == IF \E i \in 1..Len(evs) : evs[i].ev = "cpio" THEN evs[CHOOSE i \in 1..Len(evs) : evs[i].ev = "cpio"].names ELSE <<>>
             sv(k) == ToNat(StructVal(evs, k))
         IN (IF HasStruct(evs, "sig_start") /\ sv("sig_start") # 96 THEN {"C04.rpm_lead"} ELSE {})
            \cup (IF HasStruct(evs, "hdr_start") /\ (sv("hdr_start") # Align8(sv("sig_end")) \/ sv("hdr_start") % 8 # 0) THEN {"C04.rpm_sig_aligned"} ELSE {})
            \cup (IF cp # ngNames THEN {"C04.rpm_cpio_matches_header"} ELSE {})
            \cup (IF ~IsSortedStr(hdrNames) THEN {"C04.rpm_sorted"} ELSE {})
            \cup (IF \E i, j \in 1..Len(files) : i # j /\ hdrNames[i] = hdrNames[j] THEN {"C04.names_unique"} ELSE {})
            \cup (IF \E i \in 1..Len(files) : BitAnd(files[i].flags, 64) = 64 /\ files[i].incpio THEN {"C08.ghost_no_payload"} ELSE {})
    [] OTHER -> {}

(* ---- C03: digests and sizes --------------------------------------------- *)
RegularData(f, evs) == Idx(evs, LAMBDA e : e.ev = "tar" /\ e.in = "data" /\ e.type = "0" /\ ~(f = "archlinux" /\ e.name \in SpecialNames))
RECURSIVE SumCsize(_, _)
SumCsize(evs, S) == IF S = {} THEN 0 ELSE LET i == CHOOSE x \in S : TRUE IN evs[i].csize + SumCsize(evs, S \ {i})
SizeSum(f, evs) == SumSizes(evs, RegularData(f, evs))
KiBOk(stated, bytes) == stated * 1024 <= bytes + 1023 /\ bytes < stated * 1024 + 1024   \* floor or ceiling KiB

OctStr(n) == LET RECURSIVE O(_) O(k) == IF k < 8 THEN Digits[k + 1] ELSE O(k \div 8) \o Digits[(k % 8) + 1] IN O(n)

StatedSizes(evs) == IF HasMeta(evs, "control", "Installed-Size")
                    THEN { MetaVals(evs, "control", "Installed-Size")[i] : i \in 1..Len(MetaVals(evs, "control", "Installed-Size")) } ELSE {}
DigestClauses(f, c, evs) ==
  CASE f = "deb" ->
         LET D == Idx(evs, LAMBDA e : e.ev = "digest" /\ e.kind = "md5sums")
             R == RegularData(f, evs)
             dn == { Norm(evs[i].name) : i \in D }
             rn == { Norm(evs[i].name) : i \in R }
             is == Meta1(evs, "control", "Installed-Size")
         IN (IF dn # rn \/ Cardinality(D) # Cardinality(R) THEN {"C03.md5sums_one_line_per_file"} ELSE {})
            \cup (IF \E i \in D : \E j \in R : Norm(evs[i].name) = Norm(evs[j].name) /\ evs[i].hex # evs[j].md5 THEN {"C03.md5sums_value"} ELSE {})
            \cup (IF \E i \in D : HasPrefix(evs[i].name, "/") THEN {"C03.md5sums_relative_name"} ELSE {})
            \cup (IF ~AllDigits(is) \/ ~KiBOk(ToNat(is), SizeSum(f, evs)) THEN {"C03.deb_installed_size"} ELSE {})
            \cup (IF \E v \in StatedSizes(evs) : ~AllDigits(v) \/ ~KiBOk(ToNat(v), SizeSum(f, evs)) THEN {"C03.deb_installed_size"} ELSE {})
    [] f = "ipk" ->
         LET is == Meta1(evs, "control", "Installed-Size")
             total == SizeSum(f, evs)
         IN (IF is = "" THEN (IF total >= 1024 THEN {"C03.ipk_installed_size"} ELSE {})
             ELSE IF ~AllDigits(is) \/ ~KiBOk(ToNat(is), total) THEN {"C03.ipk_installed_size"} ELSE {})
            \* every size the control file states describes the payload (a second, user supplied one does not)
            \cup (IF \E v \in StatedSizes(evs) : ~AllDigits(v) \/ ~KiBOk(ToNat(v), total) THEN {"C03.ipk_installed_size"} ELSE {})
    [] f = "apk" ->
         LET oe == OuterEvs(evs)
             dataSeg == SelectSeq(oe, LAMBDA e : e.name = "data")
             R == RegularData(f, evs)
             sz == Meta1(evs, "pkginfo", "size")
         IN (IF Len(dataSeg) # 1 \/ Meta1(evs, "pkginfo", "datahash") # dataSeg[1].sha256 THEN {"C03.apk_datahash"} ELSE {})
            \cup (IF \E i \in R : evs[i].pax_sha1 # evs[i].sha1 THEN {"C03.apk_pax_sha1"} ELSE {})
            \cup (IF ~AllDigits(sz) \/ ToNat(sz) # SizeSum(f, evs) THEN {"C03.apk_size"} ELSE {})
    [] f = "archlinux" ->
         LET MT == Idx(evs, LAMBDA e : e.ev = "mtree")
             T == Idx(evs, LAMBDA e : e.ev = "tar" /\ e.in = "data" /\ e.name \notin {".MTREE", ".INSTALL"})
             mp == { Norm(evs[i].path) : i \in MT }
             tp == { Norm(evs[i].name) : i \in T }
             pair == { <<i, j>> \in MT \X T : Norm(evs[i].path) = Norm(evs[j].name) }
             tkind(e) == CASE e.type = "0" -> "file" [] e.type = "5" -> "dir" [] e.type = "2" -> "link" [] OTHER -> "?"
             sz == Meta1(evs, "pkginfo", "size")
         IN (IF mp # tp \/ Cardinality(MT) # Cardinality(T) THEN {"C03.mtree_one_line_per_entry"} ELSE {})
            \cup (IF \E p \in pair : evs[p[1]].type # tkind(evs[p[2]]) THEN {"C03.mtree_type"} ELSE {})
            \cup (IF \E p \in pair : evs[p[2]].type # "2" /\ evs[p[1]].mode # evs[p[2]].modeoct THEN {"C03.mtree_mode"} ELSE {})
            \* without a configured package mtime the stamp of .PKGINFO is the clock, read once for the tar header and
            \* once for the .MTREE line: the two may differ by a tick, so that pair is not compared in that case
            \* (the tar writer rounds a sub-second source mtime to the nearest second, .MTREE truncates it: a difference
            \* of one second in that direction is recorded as drift, not as a violation)
            \cup (IF \E p \in pair : evs[p[2]].mt >= 1 /\ evs[p[1]].time = NatToStr(evs[p[2]].mt - 1) \o ".0" THEN {"DOC.mtree_time_rounding"} ELSE {})
            \cup (LET bad == { p \in pair : evs[p[2]].mt >= 0 /\ evs[p[1]].time # NatToStr(evs[p[2]].mt) \o ".0"
                                           /\ ~(evs[p[2]].mt >= 1 /\ evs[p[1]].time = NatToStr(evs[p[2]].mt - 1) \o ".0")
                                           /\ ~(~c.pmtset /\ evs[p[2]].name = ".PKGINFO") } IN
                  IF bad = {} THEN {}
                  \* as-is deviation: without a configured package mtime, entries that have no time of their own (implied
                  \* directories, symlinks found in a tree) carry Go's zero time in .MTREE while their tar header says 0
                  ELSE IF ~c.pmtset /\ \A p \in bad : evs[p[2]].type \in {"5", "2"} /\ evs[p[2]].mt = 0 /\ evs[p[1]].time = "-62135596800.0"
                       THEN {"C03.mtree_time@ArchZeroTimeDirs"}
                  ELSE {"C03.mtree_time"})
            \cup (IF \E p \in pair : evs[p[2]].type = "0" /\ evs[p[1]].size # NatToStr(evs[p[2]].size) THEN {"C03.mtree_size"} ELSE {})
            \cup (IF \E p \in pair : evs[p[2]].type = "0" /\ evs[p[1]].md5 # evs[p[2]].md5 THEN {"C03.mtree_md5"} ELSE {})
            \cup (IF \E p \in pair : evs[p[2]].type = "0" /\ evs[p[1]].sha256 # evs[p[2]].sha256 THEN {"C03.mtree_sha256"} ELSE {})
            \cup (IF \E p \in pair : evs[p[2]].type = "2" /\ evs[p[1]].link # evs[p[2]].link THEN {"C03.mtree_link"} ELSE {})
            \cup (IF ~AllDigits(sz) /\ SizeSum(f, evs) # 0 THEN {"C03.arch_pkginfo_size"}
                  ELSE IF AllDigits(sz) /\ ToNat(sz) # SizeSum(f, evs) THEN {"C03.arch_pkginfo_size"} ELSE {})
    [] f = "rpm" ->
         LET F == Idx(evs, LAMBDA e : e.ev = "rpmfile")
             reg == { i \in F : evs[i].mode \div 4096 = 8 /\ BitAnd(evs[i].flags, 64) = 0 }
             sv(k) == StructVal(evs, k)
         IN (IF ~HasMeta(evs, "sig", "273") \/ Meta1(evs, "sig", "273") # sv("hdr_sha256") THEN {"C03.rpm_header_sha256"} ELSE {})
            \cup (IF HasMeta(evs, "sig", "269") /\ Meta1(evs, "sig", "269") # sv("hdr_sha1") THEN {"C03.rpm_header_sha1"} ELSE {})
            \cup (IF ~HasMeta(evs, "hdr", "5092") \/ Meta1(evs, "hdr", "5092") # sv("payload_sha256") THEN {"C03.rpm_payload_digest"} ELSE {})
            \cup (IF HasMeta(evs, "hdr", "5093") /\ Meta1(evs, "hdr", "5093") # "8" THEN {"C03.rpm_payload_digest_algo"} ELSE {})
            \cup (IF \E i \in reg : evs[i].incpio /\ evs[i].digest # evs[i].sha256 THEN {"C03.rpm_file_digest"} ELSE {})
            \cup (IF reg # {} /\ HasMeta(evs, "hdr", "5011") /\ Meta1(evs, "hdr", "5011") # "8" THEN {"C03.rpm_file_digest_algo"} ELSE {})
            \cup (IF \E i \in reg : evs[i].incpio /\ evs[i].size # evs[i].csize THEN {"C03.rpm_file_size"} ELSE {})
            \cup (IF ~HasMeta(evs, "sig", "1000") \/ Meta1(evs, "sig", "1000") # sv("hdr_plus_payload_len") THEN {"C03.rpm_sig_size"} ELSE {})
            \* PAYLOADSIZE: rpm itself stores the size of the uncompressed archive, rpmpack the sum of the file bodies;
            \* rpm does not verify the tag, so either reading is accepted
            \cup (IF ~HasMeta(evs, "sig", "1007") \/ Meta1(evs, "sig", "1007") \notin {sv("payload_rawlen"), NatToStr(SumCsize(evs, { i \in F : evs[i].incpio }))}
                  THEN {"C03.rpm_payload_size"} ELSE {})
            \cup (IF HasMeta(evs, "sig", "1004") /\ Meta1(evs, "sig", "1004") # "hex:" \o sv("hdr_plus_payload_md5") THEN {"C03.rpm_sig_md5"} ELSE {})
            \cup (IF HasMeta(evs, "hdr", "1009") /\ Meta1(evs, "hdr", "1009") # NatToStr(SumSizes(evs, reg)) THEN {"DOC.rpm_size_tag"} ELSE {})
    [] OTHER -> {}

(* ---- C07: no timestamp in the package comes from the build-time clock ----- *)
(* With the package mtime fixed, every stamp stored anywhere in the package *)
(* equals the configured mtime, a configured per-entry mtime, the on-disk   *)
(* mtime of a source (content, script, changelog) or is a constant zero.    *)
(* The generator keeps all of these years apart from the wall clock, so a   *)
(* stamp's VALUE identifies its provenance.                                 *)
ZeroStamps == {0, 2147483647}      \* 0, and Go's zero time truncated to 32 bits (clamped by the harness)
AllowedStamps(c, tree) ==
  {c.pmt} \cup ZeroStamps \cup { c.entries[i].fi.mt : i \in 1..Len(c.entries) } \cup { n.mt : n \in tree }
     \cup { c.script_mt[k] : k \in DOMAIN c.script_mt } \cup { c.changelog[i].date : i \in 1..Len(c.changelog) }
StampStr(n) == NatToStr(n)
StampClauses(f, c, tree, evs) ==
  IF ~c.pmtset THEN {}
  ELSE LET ok == AllowedStamps(c, tree)
           okStr == { StampStr(x) : x \in ok }
           numeric == { evs[i].mt : i \in Idx(evs, LAMBDA e : e.ev \in {"outer", "tar", "slot", "rpmfile"}) }
                      \cup { evs[i].atime : i \in Idx(evs, LAMBDA e : e.ev = "tar") }
                      \cup { evs[i].ctime : i \in Idx(evs, LAMBDA e : e.ev = "tar") }
           structs == { evs[i].value : i \in Idx(evs, LAMBDA e : e.ev = "struct" /\ HasPrefix(e.key, "gz_mtime:")) }
           metas == (IF HasMeta(evs, "hdr", "1006") THEN SeqToSet(MetaVals(evs, "hdr", "1006")) ELSE {})
                    \cup (IF f = "archlinux" /\ HasMeta(evs, "pkginfo", "builddate") THEN SeqToSet(MetaVals(evs, "pkginfo", "builddate")) ELSE {})
           mtree == { evs[i].time : i \in Idx(evs, LAMBDA e : e.ev = "mtree") }
           okMtree == { x \o ".0" : x \in okStr } \cup {"-62135596800.0"}
       IN (IF numeric \subseteq ok THEN {} ELSE {"C07.no_clock_stamp.member_header"})
          \cup (IF structs \subseteq okStr THEN {} ELSE {"C07.no_clock_stamp.gzip_header"})
          \cup (IF metas \subseteq okStr THEN {} ELSE {"C07.no_clock_stamp.build_time"})
          \cup (IF mtree \subseteq okMtree THEN {} ELSE {"C07.no_clock_stamp.mtree"})

(* ---- C08: configuration files, rpm special types -------------------------- *)
RpmFlagOf(t) == CASE t = "config" -> 1 [] t = "config|noreplace" -> 17 [] t = "config|missingok" -> 9
                  [] t = "ghost" -> 64 [] t = "doc" -> 2 [] t \in {"licence", "license"} -> 128 [] t = "readme" -> 256
                  [] OTHER -> 0

ConfClauses(f, m, evs) ==
  LET confKeys == { k \in DOMAIN m : m[k].type \in ConfigTypes }
  IN
  CASE f \in {"deb", "ipk"} ->
         LET obs == { evs[i].path : i \in Idx(evs, LAMBDA e : e.ev = "conf") }
             exp == { PathStr(KeyPath(k)) : k \in confKeys }
         IN (IF exp \ obs # {} THEN {"C08.conf_registered"} ELSE {})
            \cup (IF obs \ exp # {} THEN {"C08.conf_no_false_positive"} ELSE {})
    [] f = "archlinux" ->
         LET obs == IF HasMeta(evs, "pkginfo", "backup") THEN SeqToSet(MetaVals(evs, "pkginfo", "backup")) ELSE {}
             exp == { RelName(KeyPath(k)) : k \in confKeys }
         IN (IF exp \ obs # {} THEN {"C08.conf_registered"} ELSE {})
            \cup (IF obs \ exp # {} THEN {"C08.conf_no_false_positive"} ELSE {})
    [] f = "rpm" ->
         LET F == Idx(evs, LAMBDA e : e.ev = "rpmfile")
             exp(p) == IF \E k \in DOMAIN m : KeyPath(k) = p THEN RpmFlagOf(m[CHOOSE k \in DOMAIN m : KeyPath(k) = p].type) ELSE 0
             known == 1 + 2 + 8 + 16 + 64 + 128 + 256
         IN (IF \E i \in F : (BitAnd(exp(Norm(evs[i].name)), 1) = 1) /\ BitAnd(evs[i].flags, 1) = 0 THEN {"C08.conf_registered"} ELSE {})
            \cup (IF \E i \in F : (BitAnd(exp(Norm(evs[i].name)), 1) = 0) /\ BitAnd(evs[i].flags, 1) = 1 THEN {"C08.conf_no_false_positive"} ELSE {})
            \cup (IF \E i \in F : BitAnd(evs[i].flags, known) # exp(Norm(evs[i].name)) THEN {"C08.rpm_flags"} ELSE {})
            \cup (IF \E i \in F : BitAnd(evs[i].flags, 64) = 64 /\ exp(Norm(evs[i].name)) = 64
                       /\ m[CHOOSE k \in DOMAIN m : KeyPath(k) = Norm(evs[i].name)].mode = 0 /\ evs[i].mode % 4096 # 420
                  THEN {"C08.ghost_default_mode"} ELSE {})
    [] OTHER -> {}   \* apk has no notion of configuration files

(* no other format contains rpm-only entries: follows from C01.payload_exact with RelevantOnly *)

(* ---- C09: maintainer scripts ----------------------------------------------- *)
SlotTable(f) ==
  CASE f \in {"deb"} -> { <<"preinstall", "preinst">>, <<"postinstall", "postinst">>, <<"preremove", "prerm">>, <<"postremove", "postrm">>,
                          <<"deb.rules", "rules">>, <<"deb.templates", "templates">>, <<"deb.config", "config">> }
    [] f = "ipk" -> { <<"preinstall", "preinst">>, <<"postinstall", "postinst">>, <<"preremove", "prerm">>, <<"postremove", "postrm">> }
    [] f = "rpm" -> { <<"preinstall", "PREIN">>, <<"postinstall", "POSTIN">>, <<"preremove", "PREUN">>, <<"postremove", "POSTUN">>,
                      <<"rpm.pretrans", "PRETRANS">>, <<"rpm.posttrans", "POSTTRANS">>, <<"rpm.verify", "VERIFYSCRIPT">> }
    [] f = "apk" -> { <<"preinstall", ".pre-install">>, <<"postinstall", ".post-install">>, <<"preremove", ".pre-deinstall">>,
                      <<"postremove", ".post-deinstall">>, <<"apk.preupgrade", ".pre-upgrade">>, <<"apk.postupgrade", ".post-upgrade">> }
    [] f = "archlinux" -> { <<"preinstall", "pre_install">>, <<"postinstall", "post_install">>, <<"preremove", "pre_remove">>,
                            <<"postremove", "post_remove">>, <<"archlinux.preupgrade", "pre_upgrade">>, <<"archlinux.postupgrade", "post_upgrade">> }

EmptyCid == "ce3b0c44298fc1c14"   \* content id of the empty byte string

ScriptsConfigured(f, c) == \E p \in SlotTable(f) : c.scripts[p[1]] # ""

SlotClauses(f, c, evs) ==
  LET S == Idx(evs, LAMBDA e : e.ev = "slot")
      obs == { <<evs[i].name, evs[i].cid>> : i \in S }
      exp == { <<p[2], c.scripts[p[1]]>> : p \in { q \in SlotTable(f) : c.scripts[q[1]] # "" } }
      expNames == { x[1] : x \in exp }
      obsNames == { x[1] : x \in obs }
      \* an EMPTY script embeds zero bytes: rpm cannot distinguish an empty scriptlet tag from none and omits it;
      \* every other format has a member / function per slot, which must be there
      expNonEmpty == { x \in exp : x[2] # EmptyCid \/ f # "rpm" }
  IN (IF \E x \in expNonEmpty : x[1] \notin obsNames THEN {"C09.slot_populated_iff_configured"} ELSE {})
     \cup (IF \E n \in obsNames : n \notin expNames THEN {"C09.slot_populated_iff_configured"} ELSE {})
     \cup (IF \E x \in obs : x[1] \in expNames /\ x \notin exp THEN {"C09.slot_bytes"} ELSE {})
     \cup (IF f \in {"deb", "ipk"} /\ \E i \in S : evs[i].name \in {"preinst", "postinst", "prerm", "postrm"} /\ evs[i].mode # 493
           THEN {"C09.slot_mode"} ELSE {})
     \cup (IF Cardinality(S) # Cardinality(obsNames) THEN {"C09.slot_unique"} ELSE {})

(* the slot tables are injective: no two lifecycle events share a slot (checked by TLC in MC_Layout) *)
SlotTableInjective == \A f \in Formats : \A p, q \in SlotTable(f) : (p[2] = q[2] \/ p[1] = q[1]) => p = q

(* ---- DOC: what the implementation additionally does (never decides a verdict; recorded as drift) ---- *)
DebSlotOrder == <<"config", "postinst", "postrm", "preinst", "prerm", "rules", "templates">>   \* sorted slot names
DocClauses(f, c, tree, evs) ==
  LET ctl == TarSeq(evs, "control")
      cn == [i \in 1..Len(ctl) |-> ctl[i].name]
      slotsPresent == SelectSeq(DebSlotOrder, LAMBDA n : \E i \in 1..Len(cn) : cn[i] = "./" \o n)
      hasTrig == \E i \in 1..Len(cn) : cn[i] = "./triggers"
      debOrder == <<"./control", "./md5sums", "./conffiles">> \o (IF hasTrig THEN <<"./triggers">> ELSE <<>>)
                  \o [i \in 1..Len(slotsPresent) |-> "./" \o slotsPresent[i]]
      oe == OuterEvs(evs)
      dataT == TarSeq(evs, "data")
  IN CASE f = "deb" ->
            (IF cn # debOrder THEN {"DOC.deb_control_member_order"} ELSE {})
            \* provenance of stamps: ar members and control members carry the package mtime
            \cup (IF c.pmtset /\ \E i \in 1..Len(oe) : oe[i].mt # c.pmt THEN {"DOC.deb_ar_members_stamped_with_package_mtime"} ELSE {})
            \cup (IF c.pmtset /\ \E i \in 1..Len(ctl) : ctl[i].mt # c.pmt THEN {"DOC.deb_control_members_stamped_with_package_mtime"} ELSE {})
            \cup (IF c.pmtset /\ \E i \in 1..Len(dataT) : dataT[i].type = "5" /\ dataT[i].mt # c.pmt THEN {"DOC.deb_directories_stamped_with_package_mtime"} ELSE {})
            \cup (IF \E i \in 1..Len(dataT) : dataT[i].tfmt # "GNU" THEN {"DOC.deb_data_tar_is_gnu_format"} ELSE {})
       [] f = "ipk" ->
            (IF cn # <<"./control", "./conffiles">> \o SelectSeq(<<"./preinst", "./postinst", "./prerm", "./postrm">>, LAMBDA n : \E i \in 1..Len(cn) : cn[i] = n)
             THEN {"DOC.ipk_control_member_order"} ELSE {})
            \cup (IF c.pmtset /\ \E i \in 1..Len(oe) : oe[i].mt # c.pmt THEN {"DOC.ipk_outer_members_stamped_with_package_mtime"} ELSE {})
       [] f = "apk" ->
            \* script members of the control segment carry the script file's own mtime; .PKGINFO carries none
            (IF \E i \in Idx(evs, LAMBDA e : e.ev = "slot") :
                  \E p \in SlotTable(f) : p[2] = evs[i].name /\ c.scripts[p[1]] # "" /\ evs[i].mt # c.script_mt[p[1]]
             THEN {"DOC.apk_scripts_stamped_with_script_mtime"} ELSE {})
            \cup (IF \E i \in Idx(evs, LAMBDA e : e.ev = "tar" /\ e.in = "control" /\ e.name = ".PKGINFO") : evs[i].mt # 0 THEN {"DOC.apk_pkginfo_unstamped"} ELSE {})
            \cup (IF \E i \in 1..Len(dataT) : dataT[i].type = "0" /\ dataT[i].tfmt # "PAX" THEN {"DOC.apk_files_are_pax_format"} ELSE {})
       [] f = "archlinux" ->
            (IF c.pmtset /\ HasMeta(evs, "pkginfo", "builddate") /\ Meta1(evs, "pkginfo", "builddate") # NatToStr(c.pmt) THEN {"DOC.arch_builddate_is_package_mtime"} ELSE {})
       [] f = "rpm" ->
            (IF c.pmtset /\ HasMeta(evs, "hdr", "1006") /\ Meta1(evs, "hdr", "1006") # NatToStr(c.pmt) THEN {"DOC.rpm_buildtime_is_package_mtime"} ELSE {})
            \cup (IF \E i \in Idx(evs, LAMBDA e : e.ev = "rpmfile") : evs[i].mode \div 4096 = 4 /\ c.pmtset /\ evs[i].mt # c.pmt THEN {"DOC.rpm_directories_stamped_with_package_mtime"} ELSE {})
            \cup (IF \E i \in Idx(evs, LAMBDA e : e.ev = "rpmfile") : evs[i].mode \div 4096 = 4 /\ evs[i].size # 4096 THEN {"DOC.rpm_directory_size_4096"} ELSE {})
       [] OTHER -> {}

=============================================================================
