SPECIFICATION Spec
CONSTANTS
  ParserKeys <- MCKeys
  SchemaKeys <- MCKeys
  Settings <- MCSettings
  CodeValues <- Documented
  SchemaValues <- Documented
INVARIANTS BuiltImpliesSchemaValid PathsAgree
CHECK_DEADLOCK FALSE
