SPECIFICATION SigSpec
INVARIANTS MemberNaming
CHECK_DEADLOCK FALSE
