------------------------------ MODULE PlanOps ------------------------------
(***************************************************************************)
(* Content planning (files.PrepareForPackager / nfpm.PrepareForPackager).  *)
(*                                                                         *)
(* The planner is a fold over the raw content list: one action `Step` per  *)
(* raw entry, each of which performs zero or more insertions into the      *)
(* destination map, every insertion preceded by the parent closure.        *)
(*                                                                         *)
(* The module states the INTENDED design (what property C05 words) and     *)
(* names the deviations of the pinned implementation as switchable action  *)
(* variants (constant Deviations):                                         *)
(*   "SlashKeysDistinct"      directory-like entries are keyed with a       *)
(*                            trailing slash, leaves without: a leaf and a *)
(*                            directory at the same path do not collide    *)
(*                            and entries beneath a leaf are accepted;     *)
(*   "TreeOverwritesSilently" entries produced by a tree walk replace      *)
(*                            whatever occupies their destination.         *)
(*   "DotDotSpuriousRoot"     the parent closure is computed on the raw    *)
(*                            spelling: a destination that starts with     *)
(*                            '..' adds an entry for the root spelt "//"   *)
(*                            (one instance of the raw-spelling closure;   *)
(*                            'a/a/.' likewise added '/a/a/' next to the   *)
(*                            leaf '/a/a').                                *)
(* All three were found by this check on the pinned tree and repaired by   *)
(* fix: commits in /repo; the variants stay as regression models           *)
(* (MC_Plan_asis.cfg must violate PlanInv).                                *)
(***************************************************************************)
EXTENDS Paths, FsPaths, Integers, FiniteSets, TLC

CONSTANT Deviations

DirTypes  == {"dir", "implicit dir"}
LeafTypes == {"symlink", "ghost", "doc", "licence", "license", "readme", "debian changelog"}
GlobTypes == {"file", "config", "config|noreplace", "config|missingok", ""}
RpmOnly   == {"ghost", "doc", "licence", "license", "readme"}
KnownTypes == DirTypes \cup LeafTypes \cup GlobTypes \cup {"tree"}

(* ---- relevance (selection) ------------------------------------------- *)
Relevant(pk, e) ==
  \/ pk = ""
  \/ /\ e.tag \in {"", pk}
     /\ (e.type \in RpmOnly => pk = "rpm")
     /\ (e.type = "debian changelog" => pk = "deb")

(* ---- the source tree -------------------------------------------------- *)
(* ctx.tree is a set of nodes [p : path string relative to the source root,*)
(* kind : "file" | "dir" | "link", mode, mt, size, link (literal target),  *)
(* tk : kind of what a link resolves to: "file" | "dir" | "none"].         *)
NodePath(n) == SplitBy(n.p, "/")

(* a path (components) against a pattern: literally when globbing is disabled, else the full glob syntax on the joined strings *)
PathMatch(noglob, segs, p) ==
  IF noglob THEN segs = p
  ELSE GlobMatch(JoinBy(segs, "/"), JoinBy(p, "/"))

CleanRel(raw) ==                     \* a relative source spelling, cleaned
  LET t == Tokens(raw) IN
  SelectSeq(t, LAMBDA x : x # "" /\ x # ".")

(* what a file/config pattern denotes: the non-directory nodes that match  *)
(* it or lie beneath a matching directory (fileglob with "a matched        *)
(* directory includes its contents"); an on-disk link that resolves to a   *)
(* directory is not a file and is dropped by the "only include files" rule *)
Matches(ctx, pat) ==
  LET segs == CleanRel(pat) IN
  { n \in ctx.tree :
      /\ n.kind # "dir"
      /\ ~(n.kind = "link" /\ n.tk = "dir")
      /\ LET p == NodePath(n) IN
         \E k \in 1..Len(p) :
            PathMatch(ctx.noglob, segs, SubSeq(p, 1, k)) }

AllLeafMatches(ctx, pat) ==          \* before the "only files" filter (for the prefix)
  LET segs == CleanRel(pat) IN
  { n \in ctx.tree : n.kind # "dir" /\
      LET p == NodePath(n) IN \E k \in 1..Len(p) : PathMatch(ctx.noglob, segs, SubSeq(p, 1, k)) }

PatternExists(ctx, pat) ==
  LET segs == CleanRel(pat) IN \E n \in ctx.tree : NodePath(n) = segs

IsWildPat(ctx, pat) == ~ctx.noglob /\ HasWild(pat)

(* the directory (or file) below which the structure is replicated *)
GlobPrefix(ctx, pat) ==
  IF PatternExists(ctx, pat) /\ ~IsWildPat(ctx, pat) THEN CleanRel(pat)
  ELSE CommonDir({ NodePath(n) : n \in AllLeafMatches(ctx, pat) })

(* destination of one match *)
GlobDst(ctx, e, n) ==
  LET p == NodePath(n) IN
  IF EndsInSlash(e.dst) THEN Norm(e.dst) \o <<Base(p)>>
  ELSE Norm(e.dst) \o Rel(GlobPrefix(ctx, e.src), p)

(* ---- attributes ------------------------------------------------------- *)
(* ctx.umask, ctx.pmt (package mtime, 0 = unset).  A planned entry:        *)
(*  [type, src, owner, group, mode, mt, tag, size]                         *)
RECURSIVE BitAndR(_, _, _, _)
BitAndR(a, b, bit, acc) ==
  IF a = 0 \/ b = 0 THEN acc
  ELSE BitAndR(a \div 2, b \div 2, bit * 2,
               IF (a % 2 = 1) /\ (b % 2 = 1) THEN acc + bit ELSE acc)
BitAnd(a, b) == BitAndR(a, b, 1, 0)
BitClear(m, mask) == m - BitAnd(m, mask)

FiOwner(fi) == IF fi.owner = "" THEN "root" ELSE fi.owner
FiGroup(fi) == IF fi.group = "" THEN "root" ELSE fi.group

(* entry mtime: declared, else package mtime, else the source's on disk *)
(* ctx.pmtset: a package mtime is configured (mtime: or SOURCE_DATE_EPOCH), ctx.pmt its value - which may be 0 *)
EntryMt(ctx, fi, srcmt) ==
  IF fi.mt # 0 THEN fi.mt ELSE IF ctx.pmtset THEN ctx.pmt ELSE srcmt

FileMode(ctx, fi, srcmode) ==
  IF fi.mode # 0 THEN fi.mode ELSE BitClear(srcmode, ctx.umask)

NoFi == [owner |-> "", group |-> "", mode |-> 0, mt |-> 0]

ImplicitDir(ctx) ==
  [type |-> "implicit dir", src |-> "", owner |-> "root", group |-> "root",
   mode |-> 493, mt |-> ctx.pmt, tag |-> "", size |-> 0]

(* ---- the destination map ---------------------------------------------- *)
Key(p, dirlike) == IF "SlashKeysDistinct" \in Deviations THEN <<p, dirlike>> ELSE <<p, FALSE>>
KeyPath(k) == k[1]
IsDirEnt(x) == x.type \in DirTypes

Put(m, k, v) == [ x \in (DOMAIN m) \cup {k} |-> IF x = k THEN v ELSE m[x] ]

(* parent closure for a destination p; returns <<ok, map>> *)
RECURSIVE AddParentsR(_, _, _, _)
AddParentsR(ctx, m, anc, i) ==
  IF i > Len(anc) THEN <<TRUE, m>>
  ELSE LET k == Key(anc[i], TRUE)
           \* intended design: any occupant of the path, whatever its key form
           occ == IF k \in DOMAIN m THEN {m[k]} ELSE {}
       IN IF occ # {} THEN
             (IF \A x \in occ : IsDirEnt(x) THEN AddParentsR(ctx, m, anc, i + 1) ELSE <<FALSE, m>>)
          ELSE AddParentsR(ctx, Put(m, k, ImplicitDir(ctx)), anc, i + 1)

RawLeadingDotDot(raw) ==
  LET t == SelectSeq(Tokens(raw), LAMBDA x : x # "") IN t # <<>> /\ t[1] = ".."

(* raw = the spelling the closure is computed from ("" = an already clean one) *)
AddParents(ctx, m, p, raw) ==
  LET m0 == IF "DotDotSpuriousRoot" \in Deviations /\ RawLeadingDotDot(raw)
                /\ Key(<<>>, TRUE) \notin DOMAIN m
            THEN Put(m, Key(<<>>, TRUE), ImplicitDir(ctx)) ELSE m
  IN AddParentsR(ctx, m0, AncestorSeq(p), 1)

(* one insertion; returns <<status, map>> with status in {"ok","collision"} *)
Insert(ctx, m, p, ent, checked, raw) ==
  LET dl == IsDirEnt(ent)
      k  == Key(p, dl)
      occ == k \in DOMAIN m
      replaceOK == occ /\ dl /\ m[k].type = "implicit dir"
      par == AddParents(ctx, m, p, raw)
      \* an implied directory (a tree directory at a path the distribution owns) never displaces a directory that is there
      keepOK == occ /\ ent.type = "implicit dir" /\ IsDirEnt(m[k])
  IN IF keepOK THEN <<"ok", m>>
     ELSE IF checked /\ occ /\ ~replaceOK THEN <<"collision", m>>
     ELSE IF ~par[1] THEN <<"collision", m>>
     ELSE <<"ok", Put(par[2], k, ent)>>

RECURSIVE InsertAll(_, _, _, _, _)
(* ins: sequence of [p, ent]; stops at the first collision *)
InsertAll(ctx, m, ins, checked, raw) ==
  IF ins = <<>> THEN <<"ok", m>>
  ELSE LET r == Insert(ctx, m, Head(ins).p, Head(ins).ent, checked, raw) IN
       IF r[1] # "ok" THEN r ELSE InsertAll(ctx, r[2], Tail(ins), checked, "")

RECURSIVE SetToSeq(_)
SetToSeq(S) == IF S = {} THEN <<>>
               ELSE LET x == CHOOSE y \in S : TRUE IN <<x>> \o SetToSeq(S \ {x})
RECURSIVE SortByDepth(_)      \* parents before children: shortest path first
SortByDepth(S) == IF S = {} THEN <<>>
                  ELSE LET x == CHOOSE y \in S : \A z \in S : Len(y.p) <= Len(z.p)
                       IN <<x>> \o SortByDepth(S \ {x})

(* ---- what each kind of raw entry inserts ------------------------------ *)
DirIns(ctx, e) ==
  <<[p |-> Norm(e.dst),
     ent |-> [type |-> "dir", src |-> "", owner |-> FiOwner(e.fi), group |-> FiGroup(e.fi),
              mode |-> IF e.fi.mode # 0 THEN e.fi.mode ELSE 493,
              mt |-> IF e.fi.mt # 0 THEN e.fi.mt ELSE ctx.pmt, tag |-> e.tag, size |-> 0]]>>

(* symlink / ghost / doc-like / changelog: src is kept literally (cleaned); *)
(* a doc-like entry whose source is a file (possibly through a symbolic link) takes missing attributes from it *)
\* the regular file a source path names, directly or through a symbolic link (os.Stat follows it)
StatFile(tree, p) ==
  { n \in tree : n.kind = "file" /\ (NodePath(n) = p \/ \E l \in tree : l.kind = "link" /\ NodePath(l) = p /\ l.rt # "" /\ l.rt = n.p) }
LeafIns(ctx, e) ==
  LET nodes == StatFile(ctx.tree, CleanRel(e.src))
      has == e.type \in {"doc", "licence", "license", "readme", "debian changelog"} /\ nodes # {}
      n == CHOOSE x \in nodes : TRUE
  IN
  <<[p |-> Norm(e.dst),
     ent |-> [type |-> e.type, src |-> e.src, owner |-> FiOwner(e.fi), group |-> FiGroup(e.fi),
              mode |-> IF has THEN FileMode(ctx, e.fi, n.mode) ELSE e.fi.mode,
              mt |-> IF has THEN EntryMt(ctx, e.fi, n.mt) ELSE IF e.fi.mt # 0 THEN e.fi.mt ELSE ctx.pmt,
              tag |-> e.tag, size |-> IF has THEN n.size ELSE 0]]>>

GlobIns(ctx, e) ==
  LET M == Matches(ctx, e.src)
      one(n) == [p |-> GlobDst(ctx, e, n),
                 ent |-> IF n.kind = "link"
                         THEN [type |-> "symlink", src |-> n.link, owner |-> FiOwner(e.fi), group |-> FiGroup(e.fi),
                               mode |-> e.fi.mode, mt |-> EntryMt(ctx, e.fi, n.mt), tag |-> e.tag, size |-> 0]
                         ELSE [type |-> IF e.type = "" THEN "file" ELSE e.type, src |-> n.p,
                               owner |-> FiOwner(e.fi), group |-> FiGroup(e.fi),
                               mode |-> FileMode(ctx, e.fi, n.mode), mt |-> EntryMt(ctx, e.fi, n.mt),
                               tag |-> e.tag, size |-> n.size]]
  IN SetToSeq({ one(n) : n \in M })

(* tree: the directory at src and everything beneath it, replicated at dst *)
TreeNodes(ctx, e) ==
  LET root == CleanRel(e.src) IN
  { n \in ctx.tree : IsPrefixPath(root, NodePath(n)) }

(* directories that belong to the distribution (FsPaths.tla) *)
FsOwned(p) == PathStr(p) \in FsOwnedPaths
\* the implementation tests the tree's destination as written (cleaned, not made absolute)
RawOwned(raw) == HasPrefix(raw, "/") /\ FsOwned(Norm(raw))

TreeIns(ctx, e) ==
  LET root == CleanRel(e.src)
      passOwner == ~RawOwned(e.dst)
      own == IF passOwner THEN FiOwner(e.fi) ELSE "root"
      grp == IF passOwner THEN FiGroup(e.fi) ELSE "root"
      one(n) ==
        LET p == Norm(e.dst) \o Rel(root, NodePath(n)) IN
        [p |-> p,
         ent |-> CASE n.kind = "dir" ->
                      [type |-> IF FsOwned(p) THEN "implicit dir" ELSE "dir", src |-> "", owner |-> own, group |-> grp,
                       mode |-> IF e.fi.mode # 0 THEN e.fi.mode ELSE BitClear(n.mode, ctx.umask),
                       mt |-> n.mt, tag |-> "", size |-> 0]
                   [] n.kind = "link" ->
                      [type |-> "symlink", src |-> n.link, owner |-> own, group |-> grp,
                       mode |-> 0, mt |-> ctx.pmt, tag |-> "", size |-> 0]
                   [] OTHER ->
                      [type |-> "file", src |-> n.p, owner |-> own, group |-> grp,
                       mode |-> FileMode(ctx, e.fi, n.mode),
                       mt |-> IF ctx.pmtset THEN ctx.pmt ELSE n.mt, tag |-> "", size |-> n.size]]
      S == { one(n) : n \in TreeNodes(ctx, e) }
  IN SortByDepth(S)

(* ---- one raw entry ----------------------------------------------------- *)
(* returns <<status, map>>, status in ok | collision | nomatch | invalid    *)
ApplyEntry(ctx, m, e) ==
  IF ~Relevant(ctx.pk, e) THEN <<"ok", m>>
  ELSE IF e.type \notin KnownTypes THEN <<"invalid", m>>
  ELSE IF Norm(e.dst) = <<>> /\ e.type \in LeafTypes THEN <<"ok", m>>  \* a file-like entry AT the root is not a destination (outside C05)
  ELSE IF e.type = "implicit dir" THEN <<"ok", m>>
  ELSE IF e.type = "dir" THEN InsertAll(ctx, m, DirIns(ctx, e), TRUE, e.dst)
  ELSE IF e.type \in LeafTypes THEN InsertAll(ctx, m, LeafIns(ctx, e), TRUE, e.dst)
  ELSE IF e.type = "tree" THEN
       (IF TreeNodes(ctx, e) = {} THEN <<"nomatch", m>>
        ELSE IF "TreeOverwritesSilently" \in Deviations
             THEN LET ins == TreeIns(ctx, e)
                      r0 == Insert(ctx, m, Norm(e.dst), Head(ins).ent, TRUE, e.dst)   \* root check + parents
                  IN IF r0[1] # "ok" THEN r0 ELSE InsertAll(ctx, r0[2], ins, FALSE, "")
             ELSE InsertAll(ctx, m, TreeIns(ctx, e), TRUE, e.dst))
  ELSE (IF Matches(ctx, e.src) = {} THEN <<"nomatch", m>>
        ELSE InsertAll(ctx, m, GlobIns(ctx, e), TRUE, ""))

RECURSIVE PlanFrom(_, _, _, _)
PlanFrom(ctx, m, es, i) ==
  IF i > Len(es) THEN <<"ok", m>>
  ELSE LET r == ApplyEntry(ctx, m, es[i]) IN
       IF r[1] # "ok" THEN r ELSE PlanFrom(ctx, r[2], es, i + 1)

EmptyMap == [ x \in {} |-> 0 ]
PlanOf(ctx, es) == PlanFrom(ctx, EmptyMap, es, 1)

(* ---- invariants (C05) -------------------------------------------------- *)
Paths_(m) == { KeyPath(k) : k \in DOMAIN m }

UniqueAbsoluteClean(m) ==
  /\ \A k1, k2 \in DOMAIN m : KeyPath(k1) = KeyPath(k2) => k1 = k2
  \* (the root itself can be an entry - a tree or a directory whose destination is "/" - and only as a directory)
  /\ \A k \in DOMAIN m : IsClean(KeyPath(k)) /\ (KeyPath(k) = <<>> => IsDirEnt(m[k]))

ParentsClosed(m) ==
  \A k \in DOMAIN m : \A a \in Ancestors(KeyPath(k)) :
     \E k2 \in DOMAIN m : KeyPath(k2) = a /\ IsDirEnt(m[k2])

NothingUnderNonDir(m) ==
  \A k1, k2 \in DOMAIN m : IsUnder(KeyPath(k1), KeyPath(k2)) => IsDirEnt(m[k1])

RelevantOnly(c, m) ==
  \A k \in DOMAIN m :
     /\ m[k].tag \in {"", c.pk} \/ c.pk = ""
     /\ (m[k].type \in RpmOnly => c.pk \in {"rpm", ""})
     /\ (m[k].type = "debian changelog" => c.pk \in {"deb", ""})

PlanInvOf(c, m) == /\ UniqueAbsoluteClean(m) /\ ParentsClosed(m)
                   /\ NothingUnderNonDir(m) /\ RelevantOnly(c, m)
=============================================================================
