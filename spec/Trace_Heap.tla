----------------------------- MODULE Trace_Heap -----------------------------
(***************************************************************************)
(* Trace validation for C11 (isolation of packagings) and C12 (concurrent  *)
(* packaging).                                                             *)
(*                                                                         *)
(* `op` events: one per validate / file-name / package operation of a      *)
(* history performed on ONE parsed configuration, with                     *)
(*   - the hash of the produced package and of the package a freshly       *)
(*     parsed copy produces           (Heap!OutEqualsFresh),               *)
(*   - the WRITE SET of the operation on the object graph reachable from   *)
(*     the Config, observed by deep reflection snapshots                   *)
(*                                    (Heap!ConfigUnchanged: in the        *)
(*     intended design every Set step goes to a private copy, so the write *)
(*     set on shared cells is empty),                                      *)
(*   - the formats whose Config.Get result changed.                        *)
(* `conc` events: outputs of concurrently released packagings vs the       *)
(* sequential ones; `races`: data-race reports of the Go race detector     *)
(* (Heap!RaceFree).                                                        *)
(***************************************************************************)
EXTENDS Integers, Sequences, FiniteSets, TLC, Json

Trace == ndJsonDeserialize("trace.ndjson")
VARIABLES l, cid, k, viol, drift, merr, ncases
vars == <<l, cid, k, viol, drift, merr, ncases>>
IsEv(e) == l <= Len(Trace) /\ Trace[l].ev = e /\ l' = l + 1
TraceInit == l = 1 /\ cid = 0 /\ k = 0 /\ viol = {} /\ drift = {} /\ merr = {} /\ ncases = 0
Cap == 400
Rec(req, doc, me) ==
  /\ viol' = IF Cardinality(viol) >= Cap THEN viol ELSE viol \cup { <<cid, l, n>> : n \in req }
  /\ drift' = IF Cardinality(drift) >= Cap THEN drift ELSE drift \cup { <<cid, l, n>> : n \in doc }
  /\ merr' = merr \cup { <<cid, l, n>> : n \in me }
Cl(cond, name) == IF cond THEN {} ELSE {name}

TraceCase == IsEv("case") /\ cid' = Trace[l].id /\ k' = 0 /\ ncases' = ncases + 1 /\ UNCHANGED <<viol, drift, merr>>
TraceEnd == IsEv("endcase") /\ UNCHANGED <<cid, k, viol, drift, merr, ncases>>
TraceParse == IsEv("isoparse") /\ Rec({}, {}, {"generated_config_did_not_parse"}) /\ UNCHANGED <<cid, k, ncases>>

TraceOp ==
  /\ IsEv("op")
  /\ Trace[l].k = k + 1 /\ k' = k + 1          \* operations of a history are consumed in order
  /\ LET e == Trace[l] IN
     Rec(Cl(e.op \in {"package", "named"} => e.hash = e.fresh, "C11.out_equals_fresh")
         \cup Cl(e.nchanged = 0, "C11.config_unchanged")
         \cup Cl(e.get_changed = <<>>, "C11.effective_settings_unchanged")
         \* C13 on the same observation: what Get yields for a format is base + that format's block - whatever has been
         \* validated, named or packaged for ANY format before
         \cup Cl(e.get_changed = <<>>, "C13.effective_settings_independent_of_what_was_processed_before")
         \* C15: asking for the conventional file name does not alter the package subsequently built from the same Info
         \cup Cl(e.op = "named" => e.hash = e.fresh, "C15.asking_for_name_does_not_alter_package"),
         {}, {})
  /\ UNCHANGED <<cid, ncases>>

TraceConc ==
  /\ IsEv("conc")
  /\ Rec(Cl(Trace[l].mismatches = 0, "C12.out_equals_sequential")
         \cup Cl(Trace[l].panics = 0, "C12.no_panic_under_concurrency"), {}, {})
  /\ UNCHANGED <<cid, k, ncases>>

(* the driver process died with a Go runtime crash while packaging concurrently and the same rounds, run one goroutine *)
(* after the other in a fresh process, completed: the crash is an effect of the concurrency                            *)
TraceConcCrash ==
  /\ IsEv("conc_crash")
  /\ Rec(Cl(~(Trace[l].sequential_ok = "yes"), "C12.no_crash_under_concurrency"), {}, {})
  /\ UNCHANGED <<cid, k, ncases>>

TraceRaces ==
  /\ IsEv("races")
  /\ Rec(Cl(Trace[l].count = 0, "C12.no_race_report"), {}, {})
  /\ UNCHANGED <<cid, k, ncases>>

TraceEof ==
  /\ IsEv("eof")
  /\ PrintT(<<"VIOLSET", ToJson(viol)>>) /\ PrintT(<<"DRIFTSET", ToJson(drift)>>) /\ PrintT(<<"MERRSET", ToJson(merr)>>)
  /\ PrintT(<<"NCASES", ncases>>) /\ TLCSet(1, l)
  /\ UNCHANGED <<cid, k, viol, drift, merr, ncases>>

TraceNext == TraceCase \/ TraceEnd \/ TraceParse \/ TraceOp \/ TraceConc \/ TraceConcCrash \/ TraceRaces \/ TraceEof
TraceSpec == TraceInit /\ [][TraceNext]_vars
HighWater == TLCSet(2, l)
Accepted == TLCGet(1) = Len(Trace)
=============================================================================
