------------------------------ MODULE MC_Plan ------------------------------
(***************************************************************************)
(* Bounded exhaustive exploration of the planner: every content list of up *)
(* to MaxLen entries over a small universe of overlapping destinations x   *)
(* entry types x packager tags x source patterns, for each packager.       *)
(***************************************************************************)
EXTENDS Plan

CONSTANTS MaxLen, Packagers, Dsts, Tags, Full

F(p, k, mode, sz) == [p |-> p, kind |-> k, mode |-> mode, mt |-> 1500000000, size |-> sz, link |-> "", tk |-> ""]
MCTree ==
  { F("s", "dir", 493, 0), F("s/f1", "file", 420, 3), F("s/f2.conf", "file", 384, 5),
    F("s/d", "dir", 448, 0), F("s/d/g1", "file", 493, 7),
    [p |-> "s/lnk", kind |-> "link", mode |-> 511, mt |-> 1500000000, size |-> 0, link |-> "f1", tk |-> "file"],
    F("t", "dir", 493, 0), F("t/f1", "file", 420, 4) }

Fi0 == NoFi
Fi1 == [owner |-> "u", group |-> "g", mode |-> 2541, mt |-> 1400000000]   \* 04755

Shapes ==   \* type x source pattern
  IF Full THEN
   { <<"file", "s/f1">>, <<"file", "s">>, <<"file", "s/*.conf">>, <<"file", "t/f1">>, <<"config", "s/f2.conf">>,
     <<"dir", "">>, <<"symlink", "tgt">>, <<"tree", "s">>, <<"ghost", "">>, <<"file", "s/d">> }
  ELSE
   { <<"file", "s/f1">>, <<"file", "s/d">>, <<"dir", "">>, <<"symlink", "tgt">>, <<"tree", "s/d">>, <<"ghost", "">> }

Options ==
  { [type |-> sh[1], src |-> sh[2], dst |-> d, tag |-> t, fi |-> fi] :
      sh \in Shapes, d \in Dsts, t \in Tags, fi \in IF Full THEN {Fi0, Fi1} ELSE {Fi0} }

Lists == UNION { [1..n -> Options] : n \in 0..MaxLen }

Ctx(pk) == [pk |-> pk, tree |-> MCTree, umask |-> 18, noglob |-> FALSE, pmt |-> 1600000000, pmtset |-> TRUE]

MCInit == \E pk \in Packagers, es \in Lists : PlanInit(Ctx(pk), es)
MCSpec == MCInit /\ [][PlanNext]_pvars

(* the outcome is a function of the SET of relevant entries: every         *)
(* permutation of a list either fails or yields the same map               *)
Perms(q) == { p \in [1..Len(q) -> 1..Len(q)] : \A i, j \in 1..Len(q) : i # j => p[i] # p[j] }
OrderInsensitive ==
  (status = "ok") =>
     \A p \in Perms(todo) :
        LET r == PlanOf(ctx, [i \in 1..Len(todo) |-> todo[p[i]]]) IN
        r[1] = "ok" /\ r[2] = map

(* a successful plan contains something for every relevant, matching entry *)
EveryRelevantEntryPlaced ==
  (status = "ok") =>
     \A i \in 1..Len(todo) :
        LET e == todo[i] IN
        (Relevant(ctx.pk, e) /\ e.type \in {"dir"} \cup LeafTypes) =>
           \E k \in DOMAIN map : KeyPath(k) = Norm(e.dst) /\ map[k].type = e.type /\ map[k].tag = e.tag
=============================================================================
