------------------------------- MODULE Repro -------------------------------
(***************************************************************************)
(* C07: the bytes of a package are a function of the configuration and the *)
(* referenced sources only.  The environment machine changes everything    *)
(* else between builds - wall clock, time zone, CPU count, the way sources *)
(* are spelt (relative / absolute, another working directory), the process *)
(* - and every Build(f) of the same case must give the same output id.     *)
(*                                                                         *)
(* The referenced sources themselves may change between builds            *)
(* (ChangeSources: a file edited, a file added where a glob or a tree      *)
(* finds it): the output is a function of the format AND the version of    *)
(* the sources - a build made after the change, in a process that built    *)
(* before it, equals the build a fresh process makes.                      *)
(*                                                                         *)
(* Deviation "ClockLeaks": some stamp is taken from the clock (what a      *)
(* time.Now() in a header, or an unset package mtime, amounts to);         *)
(* "SchedulerLeaks": the output depends on procs (block sizes, map order); *)
(* "HistoryLeaks": something computed from the sources is remembered by    *)
(* the process (a memo of glob expansions, a cached file) and reused.      *)
(***************************************************************************)
EXTENDS Integers, Sequences, FiniteSets, TLC

CONSTANTS ReproDeviations, Formats, MaxSteps, MaxSrc

VARIABLES env, outs, steps, src, seen
vars == <<env, outs, steps, src, seen>>

TZs == {"UTC", "Asia/Kolkata", "America/St_Johns"}
Procs == {1, 2, 16}
Styles == {"abs", "rel"}

Init == /\ env = [clock |-> 0, tz |-> "UTC", procs |-> 16, style |-> "abs", pid |-> 0]
        /\ outs = <<>> /\ steps = 0
        /\ src = 0                       \* version of the referenced sources
        /\ seen = [p \in {} |-> 0]       \* pid -> the source version the process met at its first build

Tick == env' = [env EXCEPT !.clock = @ + 1]
SetTZ == \E z \in TZs : z # env.tz /\ env' = [env EXCEPT !.tz = z]
SetProcs == \E n \in Procs : n # env.procs /\ env' = [env EXCEPT !.procs = n]
SwitchStyle == \E s \in Styles : s # env.style /\ env' = [env EXCEPT !.style = s]
NewProcess == env' = [env EXCEPT !.pid = @ + 1]
ChangeSources == src < MaxSrc /\ src' = src + 1

(* the output id: in the intended design a function of the format and of the sources as they are now (the case is fixed) *)
BuildId(f) ==
  <<f,
    IF "HistoryLeaks" \in ReproDeviations /\ env.pid \in DOMAIN seen THEN seen[env.pid] ELSE src,
    IF "ClockLeaks" \in ReproDeviations THEN env.clock ELSE 0,
    IF "SchedulerLeaks" \in ReproDeviations THEN env.procs ELSE 0>>

Build == /\ \E f \in Formats : outs' = Append(outs, [fmt |-> f, src |-> src, id |-> BuildId(f), env |-> env])
         /\ seen' = IF env.pid \in DOMAIN seen THEN seen
                    ELSE [p \in (DOMAIN seen) \cup {env.pid} |-> IF p = env.pid THEN src ELSE seen[p]]
         /\ UNCHANGED <<env, src>>

Quiet == UNCHANGED <<outs, seen>>
Next == /\ steps < MaxSteps /\ steps' = steps + 1
        /\ \/ (Tick /\ Quiet /\ UNCHANGED src) \/ (SetTZ /\ Quiet /\ UNCHANGED src) \/ (SetProcs /\ Quiet /\ UNCHANGED src)
           \/ (SwitchStyle /\ Quiet /\ UNCHANGED src) \/ (NewProcess /\ Quiet /\ UNCHANGED src)
           \/ (ChangeSources /\ Quiet /\ UNCHANGED env) \/ Build
Spec == Init /\ [][Next]_vars

(* rebuilding yields byte-identical output, whatever happened to the environment in between *)
Function == \A i, j \in 1..Len(outs) : (outs[i].fmt = outs[j].fmt /\ outs[i].src = outs[j].src) => outs[i].id = outs[j].id
=============================================================================
