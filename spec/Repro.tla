------------------------------- MODULE Repro -------------------------------
(***************************************************************************)
(* C07: the bytes of a package are a function of the configuration and the *)
(* referenced sources only.  The environment machine changes everything    *)
(* else between builds - wall clock, time zone, CPU count, the way sources *)
(* are spelt (relative / absolute, another working directory), the process *)
(* - and every Build(f) of the same case must give the same output id.     *)
(*                                                                         *)
(* Deviation "ClockLeaks": some stamp is taken from the clock (what a      *)
(* time.Now() in a header, or an unset package mtime, amounts to);         *)
(* "SchedulerLeaks": the output depends on procs (block sizes, map order). *)
(***************************************************************************)
EXTENDS Integers, Sequences, FiniteSets, TLC

CONSTANTS ReproDeviations, Formats, MaxSteps

VARIABLES env, outs, steps
vars == <<env, outs, steps>>

TZs == {"UTC", "Asia/Kolkata", "America/St_Johns"}
Procs == {1, 2, 16}
Styles == {"abs", "rel"}

Init == /\ env = [clock |-> 0, tz |-> "UTC", procs |-> 16, style |-> "abs", pid |-> 0]
        /\ outs = <<>> /\ steps = 0

Tick == env' = [env EXCEPT !.clock = @ + 1]
SetTZ == \E z \in TZs : z # env.tz /\ env' = [env EXCEPT !.tz = z]
SetProcs == \E n \in Procs : n # env.procs /\ env' = [env EXCEPT !.procs = n]
SwitchStyle == \E s \in Styles : s # env.style /\ env' = [env EXCEPT !.style = s]
NewProcess == env' = [env EXCEPT !.pid = @ + 1]

(* the output id: in the intended design a function of the format only (the case is fixed) *)
BuildId(f) ==
  <<f,
    IF "ClockLeaks" \in ReproDeviations THEN env.clock ELSE 0,
    IF "SchedulerLeaks" \in ReproDeviations THEN env.procs ELSE 0>>

Build == \E f \in Formats : outs' = Append(outs, [fmt |-> f, id |-> BuildId(f), env |-> env]) /\ UNCHANGED env

Next == /\ steps < MaxSteps /\ steps' = steps + 1
        /\ \/ (Tick /\ UNCHANGED outs) \/ (SetTZ /\ UNCHANGED outs) \/ (SetProcs /\ UNCHANGED outs)
           \/ (SwitchStyle /\ UNCHANGED outs) \/ (NewProcess /\ UNCHANGED outs) \/ Build
Spec == Init /\ [][Next]_vars

(* rebuilding yields byte-identical output, whatever happened to the environment in between *)
Function == \A i, j \in 1..Len(outs) : outs[i].fmt = outs[j].fmt => outs[i].id = outs[j].id
=============================================================================
