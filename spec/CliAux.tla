------------------------------- MODULE CliAux -------------------------------
(***************************************************************************)
(* The two other file-writing commands of the tool as state machines over  *)
(* the abstract state of their output location:                            *)
(*   nfpm init -f PATH          writes the sample configuration            *)
(*                              (os.WriteFile: create or truncate)         *)
(*   nfpm jsonschema -o PATH    writes the JSON schema; PATH "-" (the      *)
(*                              default) prints it; missing parent         *)
(*                              directories are created                    *)
(* argv: [cmd, at] where `at` says what is at PATH before the run:         *)
(*   "absent", "existing_larger" (a longer file), "dir" (a directory),     *)
(*   "missing_parent" (PATH's directory does not exist), "stdout" (-o -)   *)
(* Terminal state: exit, fs in {"absent","old","complete"}, printed.       *)
(***************************************************************************)
EXTENDS Integers, TLC, Json

Cmds == {"init", "jsonschema"}
Ats == {"absent", "existing_larger", "dir", "missing_parent", "stdout"}

VARIABLES argv, pc, fs, exit, printed
vars == <<argv, pc, fs, exit, printed>>

Init ==
  /\ argv \in [cmd : Cmds, at : Ats]
  /\ ~(argv.cmd = "init" /\ argv.at = "stdout")          \* init has no stdout mode
  /\ pc = "start"
  /\ fs = (IF argv.at \in {"existing_larger", "dir"} THEN "old" ELSE "absent")
  /\ exit = 0 - 1 /\ printed = FALSE

(* jsonschema creates the parent directories first; init does not *)
Prepare ==
  /\ pc = "start"
  /\ IF argv.cmd = "jsonschema" /\ argv.at = "stdout"
     THEN printed' = TRUE /\ exit' = 0 /\ pc' = "done" /\ UNCHANGED fs
     ELSE IF argv.cmd = "init" /\ argv.at = "missing_parent"
     THEN exit' = 1 /\ pc' = "done" /\ UNCHANGED <<fs, printed>>
     ELSE pc' = "write" /\ UNCHANGED <<fs, exit, printed>>
  /\ UNCHANGED argv

(* os.WriteFile: fails on a directory, otherwise creates or truncates and writes everything *)
Write ==
  /\ pc = "write"
  /\ IF argv.at = "dir" THEN exit' = 1 /\ UNCHANGED fs
     ELSE fs' = "complete" /\ exit' = 0
  /\ pc' = "done" /\ UNCHANGED <<argv, printed>>

Next == Prepare \/ Write
Spec == Init /\ [][Next]_vars

SuccessMeansComplete == (pc = "done" /\ exit = 0) => (fs = "complete" \/ printed)
FailureChangesNothing == (pc = "done" /\ exit # 0) => fs = (IF argv.at \in {"existing_larger", "dir"} THEN "old" ELSE "absent")
NeverPartial == fs \in {"absent", "old", "complete"}

ExportBehaviours ==
  pc = "done" => PrintT(<<"AUXBEHAVIOUR", ToJson([argv |-> argv, exit |-> exit, fs |-> fs, printed |-> printed])>>)
=============================================================================
