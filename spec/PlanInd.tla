------------------------------ MODULE PlanInd ------------------------------
(***************************************************************************)
(* Unbounded check of the planner's design (C05) with Apalache.            *)
(*                                                                         *)
(* Plan.tla / PlanOps.tla are checked by TLC for content lists of up to 3  *)
(* entries over concrete destination strings.  Here the string level is    *)
(* abstracted away - a destination is a node of an ARBITRARY rooted tree   *)
(* with up to M+1 nodes (node 0 is "/", Parent[p] < p, any shape) - and    *)
(* the insertion step of PlanOps!Insert / AddParents is transcribed on it. *)
(* IndInv is inductive, so it holds after content lists of ANY length:     *)
(*     Init => IndInv        IndInv /\ Next => IndInv'                     *)
(* and it implies parent closure and "nothing beneath a non-directory";    *)
(* NoSilentReplace is an action invariant of every step from IndInv.       *)
(***************************************************************************)
EXTENDS Integers

CONSTANTS
  \* @type: Int;
  M,
  \* @type: Int -> Int;
  Parent,
  \* @type: <<Int, Int>> -> Bool;
  IsAnc

Nodes == 1..M
Kinds == {"none", "implicit", "dir", "leaf"}   \* leaf: file, symlink, ghost, ... anything that is not a directory

VARIABLES
  \* @type: Int -> Str;
  occ,
  \* @type: Str;
  last        \* outcome of the last step: "ok" | "collision" | "kept"

(* any tree shape: Parent[p] < p; IsAnc is the strict-ancestor relation it induces (node 0, the root, is never stored) *)
CInit ==
  /\ M = 7
  /\ Parent \in [1..7 -> 0..7]
  /\ \A p \in 1..7 : Parent[p] < p
  /\ IsAnc \in [(1..7) \X (1..7) -> BOOLEAN]
  /\ \A a \in 1..7 : \A p \in 1..7 :
       IsAnc[<<a, p>>] = (Parent[p] = a \/ (Parent[p] # 0 /\ IsAnc[<<a, Parent[p]>>]))

DirLike(k) == k \in {"implicit", "dir"}

Init == occ = [p \in Nodes |-> "none"] /\ last = "ok"

(* one insertion of an entry of kind t at node p (PlanOps!Insert with checked = TRUE) *)
Step(p, t) ==
  LET keep == occ[p] # "none" /\ t = "implicit" /\ DirLike(occ[p])
      replaceOK == occ[p] = "implicit" /\ DirLike(t)
      blocked == \E a \in Nodes : IsAnc[<<a, p>>] /\ occ[a] = "leaf"
  IN IF keep THEN occ' = occ /\ last' = "kept"
     ELSE IF occ[p] # "none" /\ ~replaceOK THEN occ' = occ /\ last' = "collision"
     ELSE IF blocked THEN occ' = occ /\ last' = "collision"
     ELSE /\ occ' = [q \in Nodes |-> IF q = p THEN t
                                      ELSE IF IsAnc[<<q, p>>] /\ occ[q] = "none" THEN "implicit" ELSE occ[q]]
          /\ last' = "ok"

Next == \E p \in Nodes : \E t \in {"implicit", "dir", "leaf"} : Step(p, t)

(* regression model of the defect repaired by 6aa2848 (entries beneath a non-directory were accepted): the step without *)
(* the ancestor check.  IndInv must NOT be inductive under it (negative control of this module).                      *)
StepUnchecked(p, t) ==
  IF occ[p] # "none" /\ ~(occ[p] = "implicit" /\ DirLike(t)) THEN occ' = occ /\ last' = "collision"
  ELSE /\ occ' = [q \in Nodes |-> IF q = p THEN t
                                   ELSE IF IsAnc[<<q, p>>] /\ occ[q] = "none" THEN "implicit" ELSE occ[q]]
       /\ last' = "ok"
NextAsIs == \E p \in Nodes : \E t \in {"implicit", "dir", "leaf"} : StepUnchecked(p, t)

TypeOK == occ \in [Nodes -> Kinds] /\ last \in {"ok", "collision", "kept"}

(* C05: every ancestor of every entry is present and is a directory *)
ParentsClosed == \A p \in Nodes : occ[p] # "none" => \A a \in Nodes : IsAnc[<<a, p>>] => DirLike(occ[a])
NothingUnderNonDir == \A p \in Nodes : occ[p] = "leaf" => \A q \in Nodes : IsAnc[<<p, q>>] => occ[q] = "none"

IndInv == TypeOK /\ ParentsClosed

(* an explicitly declared entry is never displaced, and nothing ever disappears *)
NoSilentReplace == \A p \in Nodes : (occ[p] \in {"dir", "leaf"} => occ'[p] = occ[p]) /\ (occ[p] # "none" => occ'[p] # "none")
(* a collision leaves the plan as it was *)
CollisionChangesNothing == last' = "collision" => occ' = occ
=============================================================================
