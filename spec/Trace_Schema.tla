---------------------------- MODULE Trace_Schema ----------------------------
(***************************************************************************)
(* Trace validation for C17: every probe is one document run through the   *)
(* three real artefacts (strict parser, packagers, emitted JSON schema).   *)
(***************************************************************************)
EXTENDS Integers, Sequences, FiniteSets, TLC, Json

Trace == ndJsonDeserialize("trace.ndjson")
VARIABLES l, cid, viol, drift, merr, ncases
vars == <<l, cid, viol, drift, merr, ncases>>
IsEv(e) == l <= Len(Trace) /\ Trace[l].ev = e /\ l' = l + 1
TraceInit == l = 1 /\ cid = 0 /\ viol = {} /\ drift = {} /\ merr = {} /\ ncases = 0
Rec(req, doc, me) ==
  /\ viol' = IF Cardinality(viol) > 400 THEN viol ELSE viol \cup { <<cid, l, n>> : n \in req }
  /\ drift' = drift \cup { <<cid, l, n>> : n \in doc }
  /\ merr' = merr \cup { <<cid, l, n>> : n \in me }
Cl(cond, name) == IF cond THEN {} ELSE {name}
TraceCase == IsEv("case") /\ cid' = Trace[l].id /\ ncases' = ncases + 1 /\ UNCHANGED <<viol, drift, merr>>
TraceEnd == IsEv("endcase") /\ UNCHANGED <<cid, viol, drift, merr, ncases>>

TraceFile == IsEv("schemafile") /\ Rec(Cl(Trace[l].identical, "C17.published_equals_emitted"), {}, IF Trace[l].err # "" THEN {"schema_command_failed"} ELSE {}) /\ UNCHANGED <<cid, ncases>>
TraceSchemaParse == IsEv("schemaparse") /\ Rec({"C17.emitted_schema_is_json"}, {}, {}) /\ UNCHANGED <<cid, ncases>>
TraceKey == IsEv("keypath") /\ Rec(Cl(Trace[l].in_schema = Trace[l].in_parser, "C17.schema_paths_equal_parser_paths"), {}, {}) /\ UNCHANGED <<cid, ncases>>
(* Schema!BuiltImpliesSchemaValid on a real document *)
TraceEnum ==
  /\ IsEv("enumprobe")
  /\ LET e == Trace[l] IN
     Rec(Cl((e.parser_accepts /\ e.builds) => e.schema_valid, "C17.built_implies_schema_valid"),
         IF ~(e.parser_accepts /\ e.builds) /\ e.setting # "generated-config" /\ ~e.cross THEN {"DOC.documented_value_not_built:" \o e.setting} ELSE {}, {})
  /\ UNCHANGED <<cid, ncases>>
(* Schema!PathsAgree, the other direction, on a real document: a key the schema does not allow is rejected by the strict *)
(* parser through every entry point (a reader, a file path, the command-line tool)                                        *)
TraceStrict ==
  /\ IsEv("strictprobe")
  /\ LET e == Trace[l] IN
     Rec(Cl(~e.schema_valid => (~e.accepted_reader /\ ~e.accepted_file /\ ~e.accepted_cli), "C17.schema_rejected_key_rejected_by_parser"),
         {}, IF e.schema_valid THEN {"unknown_key_probe_validates"} ELSE {})
  /\ UNCHANGED <<cid, ncases>>
(* the documents the project publishes (what `nfpm init` writes, the reference configuration of the documentation) use *)
(* documented keys and values only: the strict parser accepts them and the schema validates them                          *)
TraceDoc ==
  /\ IsEv("docprobe")
  /\ LET e == Trace[l] IN
     Rec(Cl(e.schema_valid, "C17.published_example_validates")
         \cup Cl(e.parser_accepts, "C17.published_example_parses"),
         {},
         IF ~e.is_yaml THEN {"published_example_is_not_yaml"} ELSE {})
  /\ UNCHANGED <<cid, ncases>>
(* spec -> code: CliAux's terminal state for this argv vs the projection of the real run.  The jsonschema command is the *)
(* way the published schema comes into being (C17); `nfpm init` is outside the listed properties: drift only.            *)
TraceAux ==
  /\ IsEv("aux")
  /\ LET e == Trace[l]
         agrees == e.obs_exit = e.tlc.exit /\ e.obs_fs = e.tlc.fs /\ e.obs_printed = e.tlc.printed /\ e.stray_files = 0
     IN Rec(IF e.cmd = "jsonschema" THEN Cl(agrees, "C17.schema_command_terminal_state_as_specified") ELSE {},
            IF e.cmd = "init" /\ ~agrees THEN {"DOC.init_command_terminal_state"} ELSE {}, {})
  /\ UNCHANGED <<cid, ncases>>
TraceLeaf ==
  /\ IsEv("leafprobe")
  /\ LET e == Trace[l] IN Rec(Cl(e.parser_accepts => e.schema_valid, "C17.accepted_leaf_validates")
                              \* ... and vice versa: a key path the schema allows (with a type-correct value) is accepted by the parser
                              \cup Cl(e.schema_valid => e.parser_accepts, "C17.schema_allowed_leaf_is_accepted"), {}, {})
  /\ UNCHANGED <<cid, ncases>>
TraceEof ==
  /\ IsEv("eof")
  /\ PrintT(<<"VIOLSET", ToJson(viol)>>) /\ PrintT(<<"DRIFTSET", ToJson(drift)>>) /\ PrintT(<<"MERRSET", ToJson(merr)>>)
  /\ PrintT(<<"NCASES", ncases>>) /\ TLCSet(1, l)
  /\ UNCHANGED <<cid, viol, drift, merr, ncases>>
TraceNext == TraceCase \/ TraceEnd \/ TraceFile \/ TraceSchemaParse \/ TraceKey \/ TraceEnum \/ TraceStrict \/ TraceDoc \/ TraceAux \/ TraceLeaf \/ TraceEof
TraceSpec == TraceInit /\ [][TraceNext]_vars
HighWater == TLCSet(2, l)
Accepted == TLCGet(1) = Len(Trace)
=============================================================================
