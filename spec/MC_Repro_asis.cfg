SPECIFICATION Spec
CONSTANTS
  ReproDeviations = {"ClockLeaks"}
  Formats = {"deb"}
  MaxSteps = 4
INVARIANTS Function
CHECK_DEADLOCK FALSE
