------------------------------ MODULE PlanProof ------------------------------
(***************************************************************************)
(* TLAPS proof that PlanInd!IndInv (parent closure) is an inductive        *)
(* invariant of the planner's insertion step for EVERY number M of paths   *)
(* and EVERY strict (irreflexive, transitive) ancestor relation (Apalache checks all trees of up *)
(* to 8 paths, TLC concrete destination strings in lists of <= 3 entries). *)
(***************************************************************************)
EXTENDS PlanInd, TLAPS

ASSUME MNat == M \in Nat
ASSUME AncType == IsAnc \in [Nodes \X Nodes -> BOOLEAN]
ASSUME AncTrans == \A a, q, p \in Nodes : IsAnc[<<a, q>>] /\ IsAnc[<<q, p>>] => IsAnc[<<a, p>>]

ASSUME AncIrr == \A p \in Nodes : ~IsAnc[<<p, p>>]     \* a STRICT ancestor relation

vars == <<occ, last>>
Spec == Init /\ [][Next]_vars

LEMMA InitInv == Init => IndInv
  BY DEF Init, IndInv, TypeOK, ParentsClosed, Kinds, DirLike

LEMMA StepInv == IndInv /\ [Next]_vars => IndInv'
<1> SUFFICES ASSUME IndInv, [Next]_vars PROVE IndInv'
  OBVIOUS
<1>1 CASE UNCHANGED vars
  BY <1>1 DEF vars, IndInv, TypeOK, ParentsClosed, DirLike
<1>2 ASSUME NEW p \in Nodes, NEW t \in {"implicit", "dir", "leaf"}, Step(p, t) PROVE IndInv'
  <2> DEFINE keep == occ[p] # "none" /\ t = "implicit" /\ DirLike(occ[p])
             replaceOK == occ[p] = "implicit" /\ DirLike(t)
             blocked == \E a \in Nodes : IsAnc[<<a, p>>] /\ occ[a] = "leaf"
  <2>1 CASE keep
    BY <1>2, <2>1 DEF Step, IndInv, TypeOK, ParentsClosed, DirLike
  <2>2 CASE ~keep /\ occ[p] # "none" /\ ~replaceOK
    BY <1>2, <2>2 DEF Step, IndInv, TypeOK, ParentsClosed, DirLike
  <2>3 CASE ~keep /\ ~(occ[p] # "none" /\ ~replaceOK) /\ blocked
    BY <1>2, <2>3 DEF Step, IndInv, TypeOK, ParentsClosed, DirLike
  <2>4 CASE ~keep /\ ~(occ[p] # "none" /\ ~replaceOK) /\ ~blocked
    <3>1 occ' = [q \in Nodes |-> IF q = p THEN t ELSE IF IsAnc[<<q, p>>] /\ occ[q] = "none" THEN "implicit" ELSE occ[q]]
         /\ last' = "ok"
      BY <1>2, <2>4 DEF Step
    <3>2 TypeOK'
      BY <3>1 DEF IndInv, TypeOK, Kinds
    <3>3 ParentsClosed'
      <4> SUFFICES ASSUME NEW x \in Nodes, occ'[x] # "none", NEW a \in Nodes, IsAnc[<<a, x>>] PROVE DirLike(occ'[a])
        BY DEF ParentsClosed
      <4>a occ \in [Nodes -> Kinds]
        BY DEF IndInv, TypeOK
      <4>b \A y \in Nodes : occ[y] # "none" => \A b \in Nodes : IsAnc[<<b, y>>] => DirLike(occ[b])
        BY DEF IndInv, ParentsClosed
      <4>c \A b \in Nodes : IsAnc[<<b, p>>] => occ[b] # "leaf"
        BY <2>4
      <4>1 CASE a = p
        \* p is an ancestor of x; x is p itself (impossible to say in general), new-implied, or was there before
        <5>1 CASE x = p
          BY <4>1, <5>1, AncIrr
        <5>2 CASE x # p /\ IsAnc[<<x, p>>] /\ occ[x] = "none"
          \* then p is an ancestor of an ancestor of p: p would be its own ancestor; still occ'[p] = t and we need DirLike(t):
          \* by transitivity IsAnc[<<p, p>>], so ~blocked gives occ[p] # "leaf" - not enough in general, so use replaceOK / none
          BY <4>1, <5>2, AncTrans, AncIrr
        <5>3 CASE x # p /\ ~(IsAnc[<<x, p>>] /\ occ[x] = "none")
          <6>1 occ[x] # "none"
            BY <5>3, <3>1
          <6>2 DirLike(occ[p])
            BY <6>1, <4>b, <4>1
          <6> QED BY <6>2, <4>1, <3>1, <2>4 DEF DirLike
        <5> QED BY <5>1, <5>2, <5>3
      <4>2 CASE a # p
        <5>1 CASE x = p
          BY <4>2, <5>1, <3>1, <4>a, <4>c DEF DirLike, Kinds
        <5>2 CASE x # p /\ IsAnc[<<x, p>>] /\ occ[x] = "none"
          <6>1 IsAnc[<<a, p>>]
            BY <5>2, AncTrans
          <6> QED BY <6>1, <4>2, <3>1, <4>a, <4>c DEF DirLike, Kinds
        <5>3 CASE x # p /\ ~(IsAnc[<<x, p>>] /\ occ[x] = "none")
          <6>1 occ[x] # "none"
            BY <5>3, <3>1
          <6>2 DirLike(occ[a])
            BY <6>1, <4>b
          <6> QED BY <6>2, <4>2, <3>1 DEF DirLike
        <5> QED BY <5>1, <5>2, <5>3
      <4> QED BY <4>1, <4>2
    <3> QED BY <3>2, <3>3 DEF IndInv
  <2> QED BY <2>1, <2>2, <2>3, <2>4
<1> QED BY <1>1, <1>2 DEF Next

THEOREM Safety == Spec => [](ParentsClosed /\ NothingUnderNonDir)
<1>1 IndInv => ParentsClosed /\ NothingUnderNonDir
  BY DEF IndInv, ParentsClosed, NothingUnderNonDir, DirLike, TypeOK, Kinds
<1> QED BY InitInv, StepInv, <1>1, PTL DEF Spec
=============================================================================
