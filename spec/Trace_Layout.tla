---------------------------- MODULE Trace_Layout ----------------------------
(***************************************************************************)
(* Trace validation of built packages.  One `case` = one abstract          *)
(* configuration + source tree; for each format one `pkg` ... `endpkg`     *)
(* block whose events are the archive members, metadata fields, digest     *)
(* lines, script slots ... as decoded by independent readers, in stream    *)
(* order.  The specification recomputes what the package must contain      *)
(* (Plan -> Layout / Meta) and collects the failing clauses.               *)
(***************************************************************************)
EXTENDS Meta, Json

Trace == ndJsonDeserialize("trace.ndjson")

VARIABLES l, cid, caseLine, pkgLine, phase, viol, drift, merr, ncases, npkgs
vars == <<l, cid, caseLine, pkgLine, phase, viol, drift, merr, ncases, npkgs>>

IsEv(e) == l <= Len(Trace) /\ Trace[l].ev = e /\ l' = l + 1

TraceInit ==
  /\ l = 1 /\ cid = 0 /\ caseLine = 0 /\ pkgLine = 0 /\ phase = "idle"
  /\ viol = {} /\ drift = {} /\ merr = {} /\ ncases = 0 /\ npkgs = 0

Cap == 400
AddViol(S) == IF Cardinality(viol) >= Cap THEN viol ELSE viol \cup S
AddDrift(S) == IF Cardinality(drift) >= Cap THEN drift ELSE drift \cup S

TraceCase ==
  /\ IsEv("case") /\ phase \in {"idle"}
  /\ cid' = Trace[l].id /\ caseLine' = l /\ phase' = "case" /\ ncases' = ncases + 1
  /\ UNCHANGED <<pkgLine, viol, drift, merr, npkgs>>

TraceParse ==
  /\ IsEv("parse") /\ phase = "case"
  /\ merr' = IF Trace[l].err # "" THEN merr \cup {<<cid, l, "generated_config_did_not_parse">>} ELSE merr
  /\ UNCHANGED <<cid, caseLine, pkgLine, phase, viol, drift, ncases, npkgs>>

C == Trace[caseLine].cfg
Tree == SeqToSet(Trace[caseLine].tree)

\* archlinux package names: alphanumerics and . _ + - only, not starting with a hyphen or a dot (arch.nameIsValid)
ArchNameOK(n) == /\ n # "" /\ Ch(n, 1) \notin {"-", "."}
                 /\ \A i \in 1..Len(n) : IsAlnum(Ch(n, i)) \/ Ch(n, i) \in {".", "_", "+", "-"}
\* deb and ipk write GNU tar headers: an owner or group name of more than 32 bytes cannot be stored (the entry cannot be
\* shipped as declared: the packaging fails - it does not leave the entry out)
GnuNameLimit(f, c) ==
  f \in {"deb", "ipk"} /\ \E i \in 1..Len(c.entries) :
     /\ c.entries[i].tag \in {"", f} /\ c.entries[i].type \notin {"symlink", "ghost", "doc", "licence", "license", "readme"}
     /\ (Len(c.entries[i].fi.owner) > 32 \/ Len(c.entries[i].fi.group) > 32)
ExpectBuild(f, c, st) ==
  /\ st = "ok"
  /\ ~GnuNameLimit(f, c)
  /\ (f = "archlinux" => ArchNameOK(c.name))
  /\ ~(f \in {"apk", "archlinux"} /\ EffPlatform(c) # "linux")
  /\ (f = "rpm" /\ c.epoch # "" => AllDigits(c.epoch))

TracePkg ==
  /\ IsEv("pkg") /\ phase = "case"
  /\ pkgLine' = l /\ phase' = "pkg" /\ npkgs' = npkgs + 1
  /\ UNCHANGED <<cid, caseLine, viol, drift, merr, ncases>>

MemberEvents == {"outer", "tar", "meta", "digest", "conf", "slot", "struct", "mtree", "rpmfile", "rel", "cpio", "changelog", "decode_error"}
TraceMember ==
  /\ l <= Len(Trace) /\ Trace[l].ev \in MemberEvents /\ l' = l + 1
  /\ phase = "pkg"
  /\ Trace[pkgLine].err = ""                 \* a failed packaging has no members
  /\ UNCHANGED <<cid, caseLine, pkgLine, phase, viol, drift, merr, ncases, npkgs>>

IsDoc(n) == HasPrefix(n, "DOC.")

TraceEndPkg ==
  /\ IsEv("endpkg") /\ phase = "pkg"
  /\ LET p == Trace[pkgLine]
         f == p.fmt
         c == EffCfg(C, C.ov[f])      \* the settings in effect for this format
         plan == PlanFor(c, Tree, f)
         st == plan[1]
         m == plan[2]
         evs == SubSeq(Trace, pkgLine + 1, l - 1)
         built == p.err = ""
         expect == ExpectBuild(f, c, st)
         resultCl == IF built /\ ~expect THEN {"C06.error_on_unbuildable_input"}
                     ELSE IF ~built /\ expect THEN {"C01.valid_configuration_builds"} ELSE {}
         pay == IF built /\ expect THEN PayloadClauses(f, c, Tree, m, evs) ELSE <<{}, {}>>
         other == IF built /\ expect
                  THEN StructClauses(f, c, ScriptsConfigured(f, c), evs) \cup DigestClauses(f, c, evs)
                       \cup ConfClauses(f, m, evs) \cup SlotClauses(f, c, evs) \cup MetaClauses(f, c, evs)
                       \cup FileNameClauses(f, c, p.fname, evs) \cup StampClauses(f, c, Tree, evs) \cup DocClauses(f, c, Tree, evs)
                  ELSE {}
         \* C13 end to end: in a configuration with override blocks, the clauses that read overridable settings (relations,
         \* umask-derived modes, script slots) are evaluated for the effective settings of THIS format; a clause that fails
         \* for them and would hold for the base settings shows a package built from something else than its format's
         \* effective settings
         ovCase == \E g \in DOMAIN C.ov : C.ov[g].block
         reqOf(cc) == LET mm == PlanFor(cc, Tree, f)[2] IN
                      { x \in PayloadClauses(f, cc, Tree, mm, evs)[1] \cup SlotClauses(f, cc, evs) \cup MetaClauses(f, cc, evs) : ~IsDoc(x) }
         c13 == IF ovCase /\ built /\ expect /\ reqOf(c) # {} /\ (reqOf(c) \ reqOf(C)) # {}
                THEN {"C13.package_states_effective_settings_of_its_format"} ELSE {}
         c13pk == IF built /\ expect /\ ForeignLeak(f, c, Tree, m, evs) THEN {"C13.per_packager_entries_stay_in_theirs"} ELSE {}
         \* C05 at the level of a packaging: a content list that collides (for this format, with what the packager itself
         \* adds - the Debian changelog - included) is rejected, not built
         c05 == (IF built /\ st = "collision" THEN {"C05.collision_rejected_when_packaging"} ELSE {})
                \* what the packager ships is the plan: every ancestor of every entry is there, before it
                \cup (IF built /\ expect /\ ("C01.payload_exact" \in pay[1] \/ "C04.parents_first" \in other)
                      THEN {"C05.package_follows_the_plan"} ELSE {})
         \* a package that was built although the list should have been rejected is still held to the container rules
         strayStruct == IF built /\ ~expect THEN StructClauses(f, c, ScriptsConfigured(f, c), evs) \cup FileNameClauses(f, c, p.fname, evs) ELSE {}
         \* ... and to the registration of what it declares as configuration: the config-typed entries on their own
         strayConf == IF built /\ ~expect
                      THEN LET cc == [c EXCEPT !.entries = SelectSeq(c.entries, LAMBDA e : e.type \in ConfigTypes)]
                               pm == PlanFor(cc, Tree, f)
                           IN IF pm[1] = "ok" THEN ConfClauses(f, pm[2], evs) \cap {"C08.conf_registered"} ELSE {}
                      ELSE {}
         \* C08: the rpm special types (ghost, doc, licence, readme) exist in rpm only - in no other format does such an entry
         \* bring anything into the package (a path only such entries would bring is not there)
         c08rpm == IF built /\ expect /\ f # "rpm" /\
                      \E i \in 1..Len(c.entries) : /\ c.entries[i].type \in RpmOnly /\ c.entries[i].tag \in {"", f}
                                                    /\ Norm(c.entries[i].dst) \in ObsPaths(f, evs)
                                                    /\ ~\E k \in DOMAIN m : KeyPath(k) = Norm(c.entries[i].dst)
                   THEN {"C08.rpm_special_types_only_in_rpm"} ELSE {}
         all == resultCl \cup pay[1] \cup pay[2] \cup other \cup c13 \cup c13pk \cup c05 \cup strayStruct \cup strayConf \cup c08rpm
     IN /\ viol' = AddViol({ <<cid, pkgLine, n>> : n \in { x \in all : ~IsDoc(x) } })
        /\ drift' = AddDrift({ <<cid, pkgLine, n>> : n \in { x \in all : IsDoc(x) } })
        /\ merr' = IF expect /\ ~PlanInvOf(CtxOf(c, Tree, f), m) THEN merr \cup {<<cid, pkgLine, "PlanInv">>} ELSE merr
  /\ phase' = "case"
  /\ UNCHANGED <<cid, caseLine, pkgLine, ncases, npkgs>>

TraceEndCase ==
  /\ IsEv("endcase") /\ phase = "case" /\ phase' = "idle"
  /\ UNCHANGED <<cid, caseLine, pkgLine, viol, drift, merr, ncases, npkgs>>

TraceEof ==
  /\ IsEv("eof") /\ phase = "idle"
  /\ PrintT(<<"VIOLSET", ToJson(viol)>>)
  /\ PrintT(<<"DRIFTSET", ToJson(drift)>>)
  /\ PrintT(<<"MERRSET", ToJson(merr)>>)
  /\ PrintT(<<"NCASES", ncases>>)
  /\ TLCSet(1, l)
  /\ UNCHANGED <<cid, caseLine, pkgLine, phase, viol, drift, merr, ncases, npkgs>>

TraceNext == TraceCase \/ TraceParse \/ TracePkg \/ TraceMember \/ TraceEndPkg \/ TraceEndCase \/ TraceEof
TraceSpec == TraceInit /\ [][TraceNext]_vars

HighWater == TLCSet(2, l)
Accepted == TLCGet(1) = Len(Trace)
=============================================================================
