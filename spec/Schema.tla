------------------------------- MODULE Schema -------------------------------
(***************************************************************************)
(* C17: three artefacts about the same document space must agree -         *)
(* the strict parser (which key paths / values it accepts), the packagers  *)
(* (which accepted documents they build) and the JSON schema emitted by    *)
(* `nfpm jsonschema` (which documents validate).                           *)
(*                                                                         *)
(* A document is abstracted to the set of key paths it uses and, for the   *)
(* enumerated settings, the value it gives them.  One step per document:   *)
(* Parse -> Build -> SchemaValidate.                                       *)
(***************************************************************************)
EXTENDS Integers, FiniteSets, Sequences, TLC

CONSTANTS ParserKeys, SchemaKeys,     \* key paths accepted by the parser / allowed by the schema
          Settings,                   \* enumerated settings
          CodeValues, SchemaValues    \* setting -> values the code builds / the schema allows

VARIABLES doc, parsed, built, valid
vars == <<doc, parsed, built, valid>>

AllKeys == ParserKeys \cup SchemaKeys
Docs == [keys : SUBSET AllKeys, setting : Settings, value : UNION { CodeValues[s] \cup SchemaValues[s] : s \in Settings }]

Init == doc \in { d \in Docs : Cardinality(d.keys) <= 1 } /\ parsed = "?" /\ built = "?" /\ valid = "?"
Check ==
  /\ parsed = "?"
  /\ parsed' = (IF doc.keys \subseteq ParserKeys THEN "yes" ELSE "no")
  /\ built' = (IF doc.keys \subseteq ParserKeys /\ doc.value \in CodeValues[doc.setting] THEN "yes" ELSE "no")
  /\ valid' = (IF doc.keys \subseteq SchemaKeys /\ doc.value \in SchemaValues[doc.setting] THEN "yes" ELSE "no")
  /\ UNCHANGED doc
Next == Check
Spec == Init /\ [][Next]_vars

BuiltImpliesSchemaValid == (built = "yes") => (valid = "yes")
PathsAgree == ParserKeys = SchemaKeys
=============================================================================
