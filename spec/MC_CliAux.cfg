SPECIFICATION Spec
INVARIANTS SuccessMeansComplete FailureChangesNothing NeverPartial
CHECK_DEADLOCK FALSE
