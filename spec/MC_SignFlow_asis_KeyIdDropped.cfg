SPECIFICATION Spec
CONSTANTS SignDeviations = {"KeyIdDropped"}
INVARIANTS RequestedKeySigns
CHECK_DEADLOCK FALSE
