------------------------------- MODULE Paths -------------------------------
(***************************************************************************)
(* Paths as sequences of components.  Norm(raw) is what                    *)
(* filepath.Clean(filepath.Join("/", raw)) denotes: an absolute, lexically *)
(* clean path; the trailing slash of a spelling is an attribute of the     *)
(* entry kind, never of the key.                                           *)
(***************************************************************************)
EXTENDS Strings

Tokens(raw) == SplitBy(raw, "/")

RECURSIVE CleanToks(_, _)
CleanToks(t, acc) ==
  IF t = <<>> THEN acc
  ELSE CASE Head(t) = "" \/ Head(t) = "." -> CleanToks(Tail(t), acc)
         [] Head(t) = ".." -> CleanToks(Tail(t), IF acc = <<>> THEN acc ELSE Front(acc))
         [] OTHER -> CleanToks(Tail(t), Append(acc, Head(t)))

Norm(raw) == CleanToks(Tokens(raw), <<>>)       \* absolute path = component sequence; <<>> is the root

PathStr(p) == IF p = <<>> THEN "/" ELSE "/" \o JoinBy(p, "/")
DirStr(p)  == IF p = <<>> THEN "/" ELSE PathStr(p) \o "/"   \* how nfpm spells a directory destination (the root: "/")
NormFileStr(raw) == PathStr(Norm(raw))
NormDirStr(raw)  == DirStr(Norm(raw))

EndsInSlash(raw) == HasSuffix(raw, "/")

Parent(p) == Front(p)
Base(p) == Last(p)
Ancestors(p) == IF p = <<>> THEN {} ELSE { SubSeq(p, 1, n) : n \in 1..(Len(p) - 1) }   \* proper, root excluded
AncestorSeq(p) == IF p = <<>> THEN <<>> ELSE [ n \in 1..(Len(p) - 1) |-> SubSeq(p, 1, n) ] \* outermost first
IsPrefixPath(a, b) == Len(a) <= Len(b) /\ SubSeq(b, 1, Len(a)) = a
IsUnder(a, b) == Len(a) < Len(b) /\ IsPrefixPath(a, b)        \* b strictly beneath a

RECURSIVE CommonPrefix2(_, _)
CommonPrefix2(a, b) ==
  IF a = <<>> \/ b = <<>> \/ Head(a) # Head(b) THEN <<>>
  ELSE <<Head(a)>> \o CommonPrefix2(Tail(a), Tail(b))

RECURSIVE CommonPrefixSet(_)
CommonPrefixSet(S) ==                 \* S non-empty set of paths
  LET x == CHOOSE y \in S : TRUE IN
  IF S = {x} THEN x ELSE CommonPrefix2(x, CommonPrefixSet(S \ {x}))

\* deepest directory containing every path of S (each path names a leaf)
CommonDir(S) == CommonPrefixSet({ Parent(p) : p \in S })

Rel(base, p) == SubSeq(p, Len(base) + 1, Len(p))              \* base is a prefix of p

\* a clean path never contains "", "." or ".." and is absolute by construction
IsClean(p) == \A i \in 1..Len(p) : p[i] \notin {"", ".", ".."}

(* member names *)
RelName(p)    == JoinBy(p, "/")                  \* a/b        (apk, archlinux)
DotName(p)    == "./" \o JoinBy(p, "/")          \* ./a/b      (deb, ipk)
=============================================================================
