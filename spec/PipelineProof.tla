---------------------------- MODULE PipelineProof ----------------------------
(***************************************************************************)
(* TLAPS proof that IndInv of PipelineInd is an inductive invariant for    *)
(* EVERY natural number N of sink writes (Apalache checks it for N up to   *)
(* 10^6, TLC for N <= 6), hence Loud and ErrorAfterSinkError always hold.  *)
(***************************************************************************)
EXTENDS PipelineInd, TLAPS

ASSUME NNat == N \in Nat

vars == <<pc, i, k, mode, variant, failed, delivered, firstErr, ret>>
Spec == Init /\ [][Next]_vars

LEMMA InitInv == Init => IndInv
  BY NNat DEF Init, IndInv, TypeOK, Loud, ErrorAfterSinkError

LEMMA StepInv == IndInv /\ [Next]_vars => IndInv'
<1> SUFFICES ASSUME IndInv, [Next]_vars PROVE IndInv'
  OBVIOUS
<1>1 CASE SinkWrite
  BY <1>1, NNat DEF SinkWrite, IndInv, TypeOK, Loud, ErrorAfterSinkError, Fails
<1>2 CASE Finish
  BY <1>2, NNat DEF Finish, IndInv, TypeOK, Loud, ErrorAfterSinkError
<1>3 CASE Return
  BY <1>3, NNat DEF Return, IndInv, TypeOK, Loud, ErrorAfterSinkError
<1>4 CASE UNCHANGED vars
  BY <1>4 DEF vars, IndInv, TypeOK, Loud, ErrorAfterSinkError
<1> QED BY <1>1, <1>2, <1>3, <1>4 DEF Next

THEOREM Safety == Spec => [](Loud /\ ErrorAfterSinkError)
<1>1 IndInv => Loud /\ ErrorAfterSinkError
  BY DEF IndInv
<1> QED BY InitInv, StepInv, <1>1, PTL DEF Spec
=============================================================================
