-------------------------------- MODULE Cli --------------------------------
(***************************************************************************)
(* The `nfpm package` command as a state machine (internal/cmd/package.go):*)
(*   StatTarget -> GuessPackager -> ParseConfig -> Resolve -> Create ->    *)
(*   Package -> (Remove | Close) -> Exit                                   *)
(* over the abstract file system at the output location.                   *)
(*                                                                         *)
(* argv: [fmt, kind, withp, fault]                                          *)
(*   kind  : what -t names: "file" (name with the format's own extension), *)
(*           "file_foreign_ext", "file_no_ext" (a name without extension), *)
(*           "file_other_ext" (a name with the                             *)
(*           extension of ANOTHER registered packager), "dir", "dir_slash",*)
(*           "dir_dotted" (an existing directory with a dot in its name), *)
(*           "file_tilde" / "dir_tilde" (a relative name that starts with *)
(*           a tilde: a name like any other, not a home directory),       *)
(*           "symlink_dir", "empty"                                        *)
(*           (no -t), "devfull" (a name whose writes fail), "existing_larger"*)
(*   withp : -p <fmt> given                                                 *)
(*   fault : "none" | "missing_script" | "missing_source" | "bad_config" | "devfull" *)
(*           | "missing_key" (the signing key file is not there: signing fails, for  *)
(*           the formats that sign - deb, rpm, apk; the others do not sign)           *)
(***************************************************************************)
EXTENDS Integers, Sequences, FiniteSets, TLC, Json

CONSTANT CliDeviations   \* "NoRemoveOnError": the partial file is left behind; "RemoveWrongPath": cleanup uses the -t argument, not the resolved path

Kinds == {"file", "file_foreign_ext", "file_other_ext", "file_no_ext", "file_tilde", "dir", "dir_slash", "dir_dotted", "dir_tilde", "symlink_dir", "empty", "devfull", "existing_larger"}
Faults == {"none", "missing_script", "missing_source", "bad_config", "devfull", "missing_key"}
Signs(f) == f \in {"deb", "rpm", "apk"}
Fmts == {"deb", "rpm", "apk", "archlinux", "ipk"}

IsDirKind(k) == k \in {"dir", "dir_slash", "dir_dotted", "dir_tilde", "symlink_dir"}
(* the extension names a registered packager (".pkg.tar.zst" -> "zst" does not) *)
CanInfer(f, k) == (k \in {"file", "file_tilde", "devfull", "existing_larger"} /\ f # "archlinux") \/ k = "file_other_ext"
(* the other packager whose extension a "file_other_ext" target carries (never archlinux: its extension names no packager) *)
Other(f) == CASE f = "deb" -> "rpm" [] f = "rpm" -> "apk" [] f = "apk" -> "ipk" [] f = "ipk" -> "deb" [] OTHER -> "deb"
(* what gets packaged: the packager given with -p, whatever the target is called; otherwise the one its extension names *)
Built(a) == IF a.withp THEN a.fmt ELSE IF a.kind = "file_other_ext" THEN Other(a.fmt) ELSE a.fmt

VARIABLES argv, pc, chosen, where, fs, exit, said
vars == <<argv, pc, chosen, where, fs, exit, said>>
(* where: "target" (the -t name itself) | "dir/conventional" | "cwd/conventional" | "" *)
(* fs: state of the output location: "absent" | "old" | "partial" | "complete"       *)

Init ==
  /\ argv \in [fmt : Fmts, kind : Kinds, withp : BOOLEAN, fault : Faults]
  /\ (argv.fault = "devfull") = (argv.kind = "devfull")
  /\ pc = "stat" /\ chosen = "" /\ where = ""
  \* "old": something is already at the -t name (a larger file from an earlier build; a symlink to a device that refuses writes)
  /\ fs = (IF argv.kind \in {"existing_larger", "devfull"} THEN "old" ELSE "absent")
  /\ exit = 0 - 1 /\ said = {}

Fail(msg) == /\ exit' = 1 /\ said' = said \cup {msg} /\ pc' = "done"

Guess ==
  /\ pc = "stat"
  /\ IF argv.withp THEN chosen' = argv.fmt /\ pc' = "parse" /\ UNCHANGED <<exit, said>>
     ELSE IF CanInfer(argv.fmt, argv.kind) THEN chosen' = Built(argv) /\ pc' = "parse" /\ UNCHANGED <<exit, said>>
     ELSE chosen' = "" /\ Fail("cause")
  /\ UNCHANGED <<argv, where, fs>>

Parse ==
  /\ pc = "parse"
  /\ IF argv.fault = "bad_config" THEN Fail("cause") ELSE pc' = "resolve" /\ UNCHANGED <<exit, said>>
  /\ UNCHANGED <<argv, chosen, where, fs>>

Resolve ==
  /\ pc = "resolve"
  /\ where' = IF argv.kind = "empty" THEN "cwd/conventional" ELSE IF IsDirKind(argv.kind) THEN "dir/conventional" ELSE "target"
  /\ pc' = "create"
  /\ UNCHANGED <<argv, chosen, fs, exit, said>>

Create ==      \* os.Create truncates whatever is there
  /\ pc = "create" /\ fs' = "partial" /\ pc' = "package"
  /\ UNCHANGED <<argv, chosen, where, exit, said>>

Package ==
  /\ pc = "package"
  /\ IF argv.fault \in {"missing_script", "missing_source", "devfull"} \/ (argv.fault = "missing_key" /\ Signs(chosen))
     THEN pc' = "cleanup" /\ UNCHANGED fs
     ELSE fs' = "complete" /\ pc' = "close"
  /\ UNCHANGED <<argv, chosen, where, exit, said>>

Cleanup ==
  /\ pc = "cleanup"
  /\ fs' = IF "NoRemoveOnError" \in CliDeviations THEN fs
           ELSE IF "RemoveWrongPath" \in CliDeviations /\ where # "target" THEN fs
           ELSE "absent"
  /\ Fail("cause")
  /\ UNCHANGED <<argv, chosen, where>>

Close ==
  /\ pc = "close" /\ exit' = 0 /\ said' = said \cup {"created"} /\ pc' = "done"
  /\ UNCHANGED <<argv, chosen, where, fs>>

Next == Guess \/ Parse \/ Resolve \/ Create \/ Package \/ Cleanup \/ Close
Spec == Init /\ [][Next]_vars

(* C06 / C15 at the design level *)
SuccessMeansComplete == (pc = "done" /\ exit = 0) => (fs = "complete" /\ "created" \in said)
\* (a file that existed before a run which fails before creating anything is not nfpm's output and stays)
FailureLeavesNothing == (pc = "done" /\ exit # 0) => (fs \in {"absent", "old"} /\ "cause" \in said)
WritesWhereAsked ==
  (pc = "done" /\ exit = 0) =>
     where = (IF argv.kind = "empty" THEN "cwd/conventional" ELSE IF IsDirKind(argv.kind) THEN "dir/conventional" ELSE "target")
InfersOnlyWhenNotGiven == (pc = "done" /\ exit = 0) => chosen = Built(argv)
GivenPackagerWins == (pc = "done" /\ exit = 0 /\ argv.withp) => chosen = argv.fmt

(* behaviours for replay: every terminal state is exported (an always-true invariant with a print side effect, *)
(* -workers 1); the harness runs the real binary with exactly this argv and compares the terminal state         *)
ExportBehaviours ==
  pc = "done" => PrintT(<<"CLIBEHAVIOUR", ToJson([argv |-> argv, exit |-> exit, where |-> where, fs |-> fs, chosen |-> chosen,
                                                   created |-> "created" \in said, cause |-> "cause" \in said])>>)

(* the terminal outcome as a function of argv (what a trace of one run is compared with) *)
ExpectFail(a) == \/ (a.fault # "none" /\ ~(a.fault = "missing_key" /\ ~Signs(Built(a))))
                 \/ (~a.withp /\ ~CanInfer(a.fmt, a.kind))
=============================================================================
