-------------------------------- MODULE Sig --------------------------------
(***************************************************************************)
(* C10: where a signature lives and which bytes it covers, per format and  *)
(* method.  Byte ranges are identities ("range ids"); the projection tells *)
(* over which candidate ranges of the DECODED package a stored signature   *)
(* verifies with the public key (go-crypto / crypto/rsa / gpg).            *)
(***************************************************************************)
EXTENDS Strings, FiniteSets, TLC

DebTypes == {"origin", "maint", "archive"}

(* the range a verifier of the format checks *)
SigRange(f, method) ==
  CASE f = "deb" /\ method = "dpkg-sig" -> "dpkgsig-manifest"
    [] f = "deb" -> "db+ctl+data"                 \* debian-binary, control and data members concatenated as stored
    [] f = "apk" -> "control-segment"             \* the control gzip member as shipped
    [] OTHER -> "?"
RpmHeaderSigRange == "header"
RpmPgpSigRange == "header+payload"

EffDebType(method, t) == IF t # "" THEN t ELSE IF method = "dpkg-sig" THEN "builder" ELSE "origin"
DebTypeValid(method, t) == method = "dpkg-sig" \/ EffDebType(method, t) \in DebTypes
DebSigMember(method, t) == "_gpg" \o EffDebType(method, t)

(* apk: key name = key_name, else the address of the maintainer; ".rsa.pub" appended unless present *)
MailAddress(m) ==
  LET lt == IndexOf(m, "<")  gt == IndexOf(m, ">") IN
  IF lt # 0 /\ gt > lt THEN SubSeq(m, lt + 1, gt - 1) ELSE TrimSpace(m)
ApkKeyName(keyName, maintainer) ==
  LET base == IF keyName # "" THEN keyName ELSE MailAddress(maintainer) IN
  IF HasSuffix(base, ".rsa.pub") THEN base ELSE base \o ".rsa.pub"
ApkSigMember(keyName, maintainer) == ".SIGN.RSA." \o ApkKeyName(keyName, maintainer)

(* what a signing callback must be handed, in call order *)
CallbackRanges(f, method) ==
  CASE f = "deb" -> <<SigRange(f, method)>>
    [] f = "rpm" -> <<RpmHeaderSigRange, RpmPgpSigRange>>
    [] f = "apk" -> <<"sha1(control-segment)">>

(* design-level sanity, checked by TLC (MC_Sig.cfg) *)
VARIABLE x
SigInit == x \in [method : {"", "debsign", "dpkg-sig"}, t : {"", "origin", "maint", "archive", "builder", "bogus"},
                  kn : {"", "origin", "k.rsa.pub"}, m : {"Jane <j@e.org>", "b@corp", "x <a@b.us>"}]
SigNext == UNCHANGED x
SigSpec == SigInit /\ [][SigNext]_x
MemberNaming ==
  /\ HasPrefix(DebSigMember(x.method, x.t), "_gpg")
  /\ (x.method # "dpkg-sig" /\ DebTypeValid(x.method, x.t) => DebSigMember(x.method, x.t) \in {"_gpgorigin", "_gpgmaint", "_gpgarchive"})
  /\ HasSuffix(ApkSigMember(x.kn, x.m), ".rsa.pub") /\ ~HasSuffix(ApkSigMember(x.kn, x.m), ".rsa.pub.rsa.pub")
  /\ (x.kn = "" => Contains(ApkSigMember(x.kn, x.m), "@"))
=============================================================================
