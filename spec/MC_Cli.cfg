SPECIFICATION Spec
CONSTANTS CliDeviations = {}
INVARIANTS SuccessMeansComplete FailureLeavesNothing WritesWhereAsked InfersOnlyWhenNotGiven
CHECK_DEADLOCK FALSE
