SPECIFICATION Spec
CONSTANTS CliDeviations = {}
INVARIANTS SuccessMeansComplete FailureLeavesNothing WritesWhereAsked InfersOnlyWhenNotGiven GivenPackagerWins
CHECK_DEADLOCK FALSE
