SPECIFICATION Spec
CONSTANTS SignDeviations = {}
INVARIANTS TypeOK BuiltMeansSigned NoSuccessAfterSignerError RequestedKeySigns UnknownKeyFails ValidSetupBuilds UnusableKeyFails
PROPERTIES Terminates
CHECK_DEADLOCK FALSE
