SPECIFICATION Spec
CONSTANTS
  Nums = {0, 1, 2, 9, 10, 11}
  Pres = {"", "rc1", "rc-1", "beta-1", "alpha.2", "0.3", "a", "1", "x-y-z", "rc.10", "rc.9"}
  Metas = {"", "git.5", "b7", "20240102"}
  Rels = {"", "1", "2"}
  Epochs = {"", "1", "2", "10"}
INVARIANTS SplitLossless PreSortsBeforeRelease NumericOrder EpochDominates
CHECK_DEADLOCK FALSE
