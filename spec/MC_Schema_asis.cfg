SPECIFICATION Spec
CONSTANTS
  ParserKeys <- MCKeys
  SchemaKeys <- MCKeys
  Settings <- MCSettings
  CodeValues <- Documented
  SchemaValues <- Pinned
INVARIANTS BuiltImpliesSchemaValid
CHECK_DEADLOCK FALSE
