SPECIFICATION Spec
CONSTANTS
  Procs <- MCProcs
  FmtOf <- MCFmtOf
  Cells <- MCCells
  CopyFileInfoOnPrepare = FALSE
  ClonePointersOnGet = FALSE
  SequentialOnly = FALSE
INVARIANTS OutEqualsFresh ConfigUnchanged RaceFree
CHECK_DEADLOCK FALSE
