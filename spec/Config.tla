------------------------------- MODULE Config -------------------------------
(***************************************************************************)
(* The Config machine: Parse (strict) -> Expand (scoped environment        *)
(* substitution) -> Defaults -> Get(f) (copy, override merge, content      *)
(* filter) -> Validate.  Operators only; Trace_Config.tla binds them to    *)
(* API-level observations, MC_Config.tla checks locality / exactness at    *)
(* design level.                                                           *)
(***************************************************************************)
EXTENDS Arch

(* ---- override merge (C13) ---------------------------------------------- *)
EmptyVal(kind) == CASE kind \in {"string", "ptr"} -> ""
                    [] kind \in {"list", "structlist", "contents", "map"} -> <<>>
                    [] kind = "bool" -> FALSE
                    [] kind \in {"int", "mode", "time"} -> 0
IsEmptyVal(kind, v) == v = EmptyVal(kind)

(* maps are sequences of [k, v] sorted by key in the traces; as sets of pairs here *)
MapSet(m) == { <<m[i].k, m[i].v>> : i \in 1..Len(m) }
MapKeys(m) == { m[i].k : i \in 1..Len(m) }
MapMerge(base, ov) ==   \* key by key: the override's non-empty values win
  { p \in MapSet(base) : ~(\E q \in MapSet(ov) : q[1] = p[1] /\ q[2] # "") } \cup { q \in MapSet(ov) : q[2] # "" \/ q[1] \notin MapKeys(base) }

(* the base value as the parser leaves it (defaults applied at parse time) *)
EffBase(leaf, kind, base) == IF leaf = "umask" /\ base = 0 THEN 2 ELSE base

(* the effective value of one overridable leaf for a format whose override *)
(* block sets it to ov (ovstate = "set" / "empty") or does not mention it   *)
(* ("noleaf") or that has no block at all ("noblock"), or an empty one:    *)
(* `f:` with nothing below it ("nullblock"), `f: {}` ("emptyblock")        *)
NoOverride == {"noblock", "noleaf", "nullblock", "emptyblock"}
Effective(leaf, kind, base, ov, ovstate) ==
  LET b == EffBase(leaf, kind, base) IN
  IF ovstate \in NoOverride THEN b
  ELSE IF IsEmptyVal(kind, ov) THEN b ELSE ov

EffectiveMap(base, ov, ovstate) ==
  IF ovstate \in NoOverride THEN MapSet(base) ELSE MapMerge(base, ov)

(* content entries "dst|tag": those addressed to f or to everyone *)
TagOf(s) == LET i == LastIndexOf(s, "|", Len(s)) IN SubSeq(s, i + 1, Len(s))
FilterFor(lst, f) == SelectSeq(lst, LAMBDA x : TagOf(x) \in {"", f})

(* ---- environment expansion (C16) ----------------------------------------- *)
IsNameCh(c) == IsAlnum(c) \/ c = "_"
RECURSIVE NameRun(_, _)
NameRun(s, i) == IF i <= Len(s) /\ IsNameCh(Ch(s, i)) THEN Ch(s, i) \o NameRun(s, i + 1) ELSE ""
Lookup(env, k) == IF \E i \in 1..Len(env) : env[i].k = k THEN env[CHOOSE i \in 1..Len(env) : env[i].k = k].v ELSE ""

RECURSIVE ExpandFrom(_, _, _)
ExpandFrom(s, i, env) ==
  IF i > Len(s) THEN ""
  ELSE LET c == Ch(s, i) IN
       IF c # "$" \/ i = Len(s) THEN c \o ExpandFrom(s, i + 1, env)
       ELSE IF Ch(s, i + 1) = "{"
            THEN LET close == IndexFrom(s, "}", i + 2) IN
                 IF close = 0 THEN SubSeq(s, i, Len(s))
                 ELSE Lookup(env, SubSeq(s, i + 2, close - 1)) \o ExpandFrom(s, close + 1, env)
            ELSE LET nm == NameRun(s, i + 1) IN
                 IF nm = "" THEN c \o ExpandFrom(s, i + 1, env)
                 ELSE Lookup(env, nm) \o ExpandFrom(s, i + 1 + Len(nm), env)
ExpandStr(s, env) == ExpandFrom(s, 1, env)

(* fields documented as expandable in www/docs/configuration.md *)
Expandable == { "arch", "platform", "version", "release", "maintainer", "description", "vendor", "homepage",
                "replaces", "provides", "depends", "recommends", "suggests", "conflicts",
                "rpm.packager", "rpm.signature.key_file", "rpm.signature.key_id",
                "deb.signature.key_file", "deb.signature.key_id", "deb.fields", "apk.signature.key_file" }
(* Fields the pinned implementation expands although the documentation does not say so (the as-is scope): recorded as  *)
(* drift.  The scope of expansion is part of the property ("scoped"): a field outside Expandable and outside this list  *)
(* that starts being expanded changes what a '$' in an existing configuration means.                                     *)
AsIsAlsoExpanded == { "name", "prerelease", "deb.predepends", "ipk.predepends", "ipk.fields", "apk.signature.key_id" }
StripOverride(path) ==
  LET t == SplitBy(path, ".") IN
  IF Len(t) > 2 /\ t[1] = "overrides" THEN JoinBy(SubSeq(t, 3, Len(t)), ".") ELSE path
(* the relation lists are the same documented fields inside an override block; nothing else there is documented *)
DocumentedExpandable(path) ==
  LET p == StripOverride(path) IN
  IF p = path THEN p \in Expandable
  ELSE p \in {"replaces", "provides", "depends", "recommends", "suggests", "conflicts"}
IsContentSrcDst(path) == HasSuffix(path, "contents.[].src") \/ HasSuffix(path, "contents.[].dst")

ExpandList(lst, env) == SelectSeq([i \in 1..Len(lst) |-> TrimSpace(ExpandStr(lst[i], env))], LAMBDA x : x # "")
TrimList(lst) == SelectSeq([i \in 1..Len(lst) |-> TrimSpace(lst[i])], LAMBDA x : x # "")

(* defaults applied after expansion: a value that expands to nothing is defaulted *)
Defaulted(path, v) ==
  IF v # <<"">> THEN v
  ELSE CASE path = "arch" -> <<"amd64">> [] path = "platform" -> <<"linux">> [] path = "version" -> <<"v0.0.0-rc0">>
         [] path = "description" -> <<"no description given">> [] OTHER -> v

(* signing passphrases: the format-specific variable with the general one as fallback *)
Passphrase(env, f) ==
  LET specific == Lookup(env, "NFPM_" \o f \o "_PASSPHRASE") IN
  IF specific # "" THEN specific ELSE Lookup(env, "NFPM_PASSPHRASE")
=============================================================================
