----------------------------- MODULE Trace_Sig -----------------------------
EXTENDS Sig, Json, Integers, SignKeys

Trace == ndJsonDeserialize("trace.ndjson")
VARIABLES l, cid, viol, drift, merr, ncases
vars == <<l, cid, viol, drift, merr, ncases>>
IsEv(e) == l <= Len(Trace) /\ Trace[l].ev = e /\ l' = l + 1
TraceInit == l = 1 /\ cid = 0 /\ viol = {} /\ drift = {} /\ merr = {} /\ ncases = 0 /\ x = [method |-> "", t |-> "", kn |-> "", m |-> ""]
Rec(req, doc, me) ==
  /\ viol' = viol \cup { <<cid, l, n>> : n \in req }
  /\ drift' = drift \cup { <<cid, l, n>> : n \in doc }
  /\ merr' = merr \cup { <<cid, l, n>> : n \in me }
Cl(cond, name) == IF cond THEN {} ELSE {name}
TraceCase == IsEv("case") /\ cid' = Trace[l].id /\ ncases' = ncases + 1 /\ UNCHANGED <<viol, drift, merr, x>>
TraceEnd == IsEv("endcase") /\ UNCHANGED <<cid, viol, drift, merr, ncases, x>>

IsCallback(e) == HasPrefix(e.keykind, "callback")
(* (a GnuPG subkey-only export - dummy primary key, signing subkey - signs in every mode since 62fa09d) *)

TraceSigEv ==
  /\ IsEv("sig")
  /\ LET e == Trace[l]
         f == e.fmt
         expectFail == e.fail \in {"callback_error", "invalid_type", "unknown_key_id", "no_key_name"}
         req ==
           IF expectFail THEN
                Cl(~e.built, "C10.failed_signing_not_reported_as_built")
                \cup Cl(~e.built, "C06.no_success_when_signing_cannot_be_done")
                \cup Cl(e.built \/ e.is_signing_failure, "C10.signing_failure_identifiable")
                \cup Cl(e.built \/ e.wraps_cause, "C10.signing_failure_wraps_signer_error")
           ELSE IF ~e.built THEN {"C10.signed_package_built"}
           ELSE
             (CASE f = "deb" ->
                     Cl(e.member = DebSigMember(e.method, e.sigtype) /\ e.pos = 4 /\ e.nmembers = 4, "C10.deb_signature_member")
                     \cup (IF IsCallback(e) THEN {} ELSE
                             Cl(e.verifies_over = <<SigRange(f, e.method)>>, "C10.verifies_over_exact_bytes")
                             \cup Cl(e.gpg \in {"ok", "na"}, "C10.gpg_verifies")
                             \* (clear-signing used to take the primary key whatever was asked for: KF-C10-4, repaired)
                             \cup Cl(e.keyid = "" \/ e.sig_keyid = e.keyid, "C10.signed_with_requested_key")
                             \cup (IF e.method = "dpkg-sig"
                                   THEN Cl(Len(e.manifest) = 3 /\ \A i \in 1..Len(e.manifest) : e.manifest[i].names_stored_member /\ e.manifest[i].digests_match,
                                           "C10.dpkgsig_manifest_matches_members")
                                   ELSE {}))
                [] f = "rpm" ->
                     Cl(e.member = "sigtags:true:true", "C10.rpm_signature_tags")
                     \cup (IF IsCallback(e) THEN {} ELSE
                             Cl(e.rpm_header_sig_over = <<RpmHeaderSigRange>>, "C10.rpm_header_signature_verifies")
                             \cup Cl(e.rpm_pgp_sig_over = <<RpmPgpSigRange>>, "C10.rpm_header_payload_signature_verifies")
                             \cup Cl(e.keyid = "" \/ e.sig_keyid = e.keyid, "C10.signed_with_requested_key")
                             \cup Cl(e.gpg \in {"ok", "na"}, "C10.gpg_verifies"))
                [] f = "apk" ->
                     Cl(e.member = ApkSigMember(e.keyname, e.maintainer) /\ e.pos = 1, "C10.apk_signature_member")
                     \cup (IF IsCallback(e) THEN {} ELSE Cl(e.verifies_over = <<SigRange(f, "")>>, "C10.verifies_over_exact_bytes"))
                [] OTHER -> {})
             \cup (IF IsCallback(e) THEN Cl(e.callback_got = CallbackRanges(f, e.method), "C10.callback_receives_exact_bytes") ELSE {})
         doc == {}
         \* C06 on the same observation: a packaging that reports success has delivered a COMPLETE package - with signing
         \* configured that includes a signature that is there and verifies (an empty or garbage signature member is
         \* incomplete output reported as success)
         c06 == IF e.built /\ (req \cap {"C10.verifies_over_exact_bytes", "C10.rpm_header_signature_verifies", "C10.rpm_header_payload_signature_verifies",
                                         "C10.dpkgsig_manifest_matches_members", "C10.deb_signature_member", "C10.apk_signature_member",
                                         "C10.rpm_signature_tags"}) # {}
                THEN {"C06.success_only_with_a_complete_signature"} ELSE {}
         \* a package reported as built whose signature member cannot even be decoded as a signature
         undec == IF e.built /\ HasPrefix(e.err, "decode:") THEN {"C10.signature_member_is_a_signature", "C06.success_only_with_a_complete_signature"} ELSE {}
     IN Rec(req \cup c06 \cup undec, doc, IF HasPrefix(e.err, "parse:") THEN {"harness_parse"} ELSE {})
  /\ UNCHANGED <<cid, ncases, x>>

(* Sig!KeyOfSignature across builds of one process: a signature is made with the key that is in the key file when the *)
(* package is built - a rotated key signs the next package, a removed key file makes signing fail                       *)
InSeq(elem, sq) == \E i \in 1..Len(sq) : sq[i] = elem
TraceRotation ==
  /\ IsEv("rotation")
  /\ LET e == Trace[l] IN
     Rec(Cl(e.err1 = "" /\ e.err2 = "", "C10.signed_package_built")
         \cup Cl(e.err1 # "" \/ InSeq(e.sig1, e.first_key), "C10.signed_with_the_key_in_the_key_file")
         \cup Cl(e.err2 # "" \/ InSeq(e.sig2, e.second_key), "C10.signed_with_the_key_in_the_key_file")
         \cup Cl(e.third_fails, "C10.failed_signing_not_reported_as_built")
         \cup Cl(~e.third_fails \/ e.third_is_signing_failure, "C10.signing_failure_identifiable"), {}, {})
  /\ UNCHANGED <<cid, ncases, x>>

(* key files of other layouts than the usual single-key export: the valid signing key in the file signs the package *)
TraceKeyShape ==
  /\ IsEv("keyshape")
  /\ LET e == Trace[l] IN
     Rec(Cl(e.err = "", "C10.signed_package_built")
         \cup Cl(e.err # "" \/ InSeq(e.sig, e.may_sign), "C10.signed_with_the_key_in_the_key_file"), {}, {})
  /\ UNCHANGED <<cid, ncases, x>>

(* SignFlow.tla, spec -> code: the terminal state of every behaviour TLC exported, replayed on the real packagers.      *)
TraceSignFlow ==
  /\ IsEv("signflow")
  /\ LET e == Trace[l]
         \* no key id requested: any key of the file that may sign will do (which one the OpenPGP library prefers is its business);
         \* a requested key id, a callback, the RSA key: exactly the signer of the specification
         agrees == /\ e.obs.outcome = e.tlc.outcome
                   /\ (e.tlc.outcome = "built" =>
                         IF e.argv.how = "keyfile" /\ e.argv.keyid = "none" THEN e.obs.signer \in MaySign(e.argv) ELSE e.obs.signer = e.tlc.signer)
         prefers == e.tlc.outcome = "built" /\ e.obs.outcome = "built" /\ e.obs.signer # e.tlc.signer
     IN Rec((IF agrees THEN {} ELSE {"C10.signing_terminal_state_as_specified"})
            \cup Cl(e.obs.outcome # "signing_failure" \/ e.is_signing_failure, "C10.signing_failure_identifiable")
            \cup (IF e.tlc.outcome = "signing_failure" /\ e.obs.outcome = "built" THEN {"C06.no_success_when_signing_cannot_be_done"} ELSE {}),
            IF agrees /\ prefers THEN {"DOC.signing_key_preference_differs:" \o e.argv.fmt} ELSE {},
            IF HasPrefix(e.err, "parse:") THEN {"harness_parse"} ELSE {})
  /\ UNCHANGED <<cid, ncases, x>>

(* KeyHist.tla, spec -> code: every exported history of key file edits and packagings, replayed in one process *)
TraceKeyHist ==
  /\ IsEv("keyhist")
  /\ LET e == Trace[l] IN
     Rec(Cl(e.obs = e.tlc, "C10.signed_with_the_key_in_the_key_file")
         \cup (IF \E i \in 1..Len(e.tlc) : i <= Len(e.obs) /\ e.tlc[i] = "failure" /\ e.obs[i] \notin {"failure"}
               THEN {"C06.no_success_when_signing_cannot_be_done"} ELSE {}), {}, {})
  /\ UNCHANGED <<cid, ncases, x>>

TraceEof ==
  /\ IsEv("eof")
  /\ PrintT(<<"VIOLSET", ToJson(viol)>>) /\ PrintT(<<"DRIFTSET", ToJson(drift)>>) /\ PrintT(<<"MERRSET", ToJson(merr)>>)
  /\ PrintT(<<"NCASES", ncases>>) /\ TLCSet(1, l)
  /\ UNCHANGED <<cid, viol, drift, merr, ncases, x>>
TraceNext == TraceCase \/ TraceEnd \/ TraceSigEv \/ TraceRotation \/ TraceKeyShape \/ TraceSignFlow \/ TraceKeyHist \/ TraceEof
TraceSpec == TraceInit /\ [][TraceNext]_<<vars, x>>
HighWater == TLCSet(2, l)
Accepted == TLCGet(1) = Len(Trace)
=============================================================================
