------------------------------ MODULE ReproInd ------------------------------
(***************************************************************************)
(* Unbounded check of Repro's Function with Apalache: in the intended      *)
(* design (no deviation) every Build(f), after ANY history of environment  *)
(* changes of any length, yields the output id <<f, src>>; hence any two    *)
(* builds of the same format and sources agree.  IndInv is inductive.                         *)
(***************************************************************************)
EXTENDS Integers, Sequences, Apalache

VARIABLES
  \* @type: { clock: Int, tz: Str, procs: Int, style: Str, pid: Int };
  env,
  \* @type: Seq({ fmt: Str, src: Int, id: <<Str, Int>> });
  outs,
  \* @type: Int;
  src

Formats == {"deb", "rpm", "apk", "archlinux", "ipk"}
TZs == {"UTC", "Asia/Kolkata", "America/St_Johns"}
Procs == {1, 2, 4, 16}
Styles == {"abs", "rel"}

Init == /\ env = [clock |-> 0, tz |-> "UTC", procs |-> 16, style |-> "abs", pid |-> 0]
        /\ outs = <<>> /\ src = 0

Tick == env' = [env EXCEPT !.clock = env.clock + 1] /\ UNCHANGED <<outs, src>>
SetTZ == \E z \in TZs : env' = [env EXCEPT !.tz = z] /\ UNCHANGED <<outs, src>>
SetProcs == \E n \in Procs : env' = [env EXCEPT !.procs = n] /\ UNCHANGED <<outs, src>>
SwitchStyle == \E s \in Styles : env' = [env EXCEPT !.style = s] /\ UNCHANGED <<outs, src>>
NewProcess == env' = [env EXCEPT !.pid = env.pid + 1] /\ UNCHANGED <<outs, src>>
ChangeSources == src' = src + 1 /\ UNCHANGED <<env, outs>>
\* the output id of the intended design: a function of the format and the sources as they are (the case is fixed)
Build == \E f \in Formats : outs' = Append(outs, [fmt |-> f, src |-> src, id |-> <<f, src>>]) /\ UNCHANGED <<env, src>>
Next == Tick \/ SetTZ \/ SetProcs \/ SwitchStyle \/ NewProcess \/ ChangeSources \/ Build

Function == \A a \in DOMAIN outs : \A b \in DOMAIN outs : (outs[a].fmt = outs[b].fmt /\ outs[a].src = outs[b].src) => outs[a].id = outs[b].id

\* an arbitrary state satisfying IndInv (Gen: any value of the type, sequences of up to 8 builds)
IndInit == env = Gen(1) /\ outs = Gen(8) /\ src = Gen(1)
           /\ (\A a \in DOMAIN outs : outs[a].id = <<outs[a].fmt, outs[a].src>> /\ outs[a].fmt \in Formats)

IndInv == \A a \in DOMAIN outs : outs[a].id = <<outs[a].fmt, outs[a].src>> /\ outs[a].fmt \in Formats
=============================================================================
