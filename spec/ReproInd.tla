------------------------------ MODULE ReproInd ------------------------------
(***************************************************************************)
(* Unbounded check of Repro's Function with Apalache: in the intended      *)
(* design (no deviation) every Build(f), after ANY history of environment  *)
(* changes of any length, yields the output id <<f>>; hence any two builds *)
(* of the same format agree.  IndInv is inductive.                         *)
(***************************************************************************)
EXTENDS Integers, Sequences, Apalache

VARIABLES
  \* @type: { clock: Int, tz: Str, procs: Int, style: Str, pid: Int };
  env,
  \* @type: Seq({ fmt: Str, id: Str });
  outs

Formats == {"deb", "rpm", "apk", "archlinux", "ipk"}
TZs == {"UTC", "Asia/Kolkata", "America/St_Johns"}
Procs == {1, 2, 4, 16}
Styles == {"abs", "rel"}

Init == /\ env = [clock |-> 0, tz |-> "UTC", procs |-> 16, style |-> "abs", pid |-> 0]
        /\ outs = <<>>

Tick == env' = [env EXCEPT !.clock = env.clock + 1] /\ UNCHANGED outs
SetTZ == \E z \in TZs : env' = [env EXCEPT !.tz = z] /\ UNCHANGED outs
SetProcs == \E n \in Procs : env' = [env EXCEPT !.procs = n] /\ UNCHANGED outs
SwitchStyle == \E s \in Styles : env' = [env EXCEPT !.style = s] /\ UNCHANGED outs
NewProcess == env' = [env EXCEPT !.pid = env.pid + 1] /\ UNCHANGED outs
\* the output id of the intended design: a function of the format alone (the case is fixed)
Build == \E f \in Formats : outs' = Append(outs, [fmt |-> f, id |-> f]) /\ UNCHANGED env
Next == Tick \/ SetTZ \/ SetProcs \/ SwitchStyle \/ NewProcess \/ Build

Function == \A a \in DOMAIN outs : \A b \in DOMAIN outs : outs[a].fmt = outs[b].fmt => outs[a].id = outs[b].id

\* an arbitrary state satisfying IndInv (Gen: any value of the type, sequences of up to 8 builds)
IndInit == env = Gen(1) /\ outs = Gen(8) /\ (\A a \in DOMAIN outs : outs[a].id = outs[a].fmt /\ outs[a].fmt \in Formats)

IndInv == \A a \in DOMAIN outs : outs[a].id = outs[a].fmt /\ outs[a].fmt \in Formats
=============================================================================
