SPECIFICATION Spec
CONSTANTS
  Nums = {0, 2, 10}
  Pres = {"", "rc1", "beta-1", "0.3"}
  Metas = {"", "git.5"}
  Rels = {"", "2"}
  Epochs = {"", "1", "3"}
INVARIANTS SplitLossless PreSortsBeforeRelease NumericOrder EpochDominates
CHECK_DEADLOCK FALSE
