SPECIFICATION Spec
CONSTANTS HistDeviations = {"KeyCached"}
  MaxOps = 5
INVARIANTS SignedWithTheKeyInTheFile
CHECK_DEADLOCK FALSE
