------------------------------ MODULE Strings ------------------------------
(***************************************************************************)
(* Value layer: operators over raw strings.  TLC 1.8 evaluates Len, SubSeq *)
(* and \o on string values, so the specification tokenises the raw         *)
(* spellings (paths, versions, patterns) itself; the conformance harness   *)
(* never pre-digests them.                                                 *)
(***************************************************************************)
EXTENDS Integers, Sequences

Ch(s, i) == SubSeq(s, i, i)

HasPrefix(s, p) == Len(p) <= Len(s) /\ SubSeq(s, 1, Len(p)) = p
HasSuffix(s, p) == Len(p) <= Len(s) /\ SubSeq(s, Len(s) - Len(p) + 1, Len(s)) = p
DropPrefix(s, n) == SubSeq(s, n + 1, Len(s))
DropSuffix(s, n) == SubSeq(s, 1, Len(s) - n)

RECURSIVE SplitFrom(_, _, _, _, _)
SplitFrom(s, sep, i, cur, acc) ==
  IF i > Len(s) THEN Append(acc, cur)
  ELSE LET c == Ch(s, i) IN
       IF c = sep THEN SplitFrom(s, sep, i + 1, "", Append(acc, cur))
       ELSE SplitFrom(s, sep, i + 1, cur \o c, acc)

\* SplitBy("a//b/", "/") = <<"a", "", "b", "">>   (sep is one character)
SplitBy(s, sep) == SplitFrom(s, sep, 1, "", <<>>)

RECURSIVE JoinFrom(_, _, _)
JoinFrom(seq, sep, i) ==
  IF i > Len(seq) THEN ""
  ELSE IF i = Len(seq) THEN seq[i]
  ELSE seq[i] \o sep \o JoinFrom(seq, sep, i + 1)
JoinBy(seq, sep) == JoinFrom(seq, sep, 1)

RECURSIVE IndexFrom(_, _, _)
IndexFrom(s, sub, i) ==            \* first index >= i at which sub occurs, 0 if none
  IF i + Len(sub) - 1 > Len(s) THEN 0
  ELSE IF SubSeq(s, i, i + Len(sub) - 1) = sub THEN i
  ELSE IndexFrom(s, sub, i + 1)
IndexOf(s, sub) == IndexFrom(s, sub, 1)
Contains(s, sub) == IndexOf(s, sub) # 0

RECURSIVE ReplaceAll(_, _, _)
ReplaceAll(s, a, b) ==             \* a non-empty
  LET i == IndexOf(s, a) IN
  IF i = 0 THEN s
  ELSE SubSeq(s, 1, i - 1) \o b \o ReplaceAll(SubSeq(s, i + Len(a), Len(s)), a, b)

AsciiTable == " !\"#$%&'()*+,-./0123456789:;<=>?@ABCDEFGHIJKLMNOPQRSTUVWXYZ[\\]^_`abcdefghijklmnopqrstuvwxyz{|}~"

Digits == <<"0", "1", "2", "3", "4", "5", "6", "7", "8", "9">>
IsDigit(c) == \E i \in 1..10 : Digits[i] = c
DigitVal(c) == (CHOOSE i \in 1..10 : Digits[i] = c) - 1
AllDigits(s) == Len(s) > 0 /\ \A i \in 1..Len(s) : IsDigit(Ch(s, i))

RECURSIVE ToNatAcc(_, _, _)
ToNatAcc(s, i, acc) == IF i > Len(s) THEN acc ELSE ToNatAcc(s, i + 1, acc * 10 + DigitVal(Ch(s, i)))
ToNat(s) == ToNatAcc(s, 1, 0)

RECURSIVE NatToStr(_)
NatToStr(n) == IF n < 10 THEN Digits[n + 1] ELSE NatToStr(n \div 10) \o Digits[(n % 10) + 1]

Lower == <<"a","b","c","d","e","f","g","h","i","j","k","l","m","n","o","p","q","r","s","t","u","v","w","x","y","z">>
Upper == <<"A","B","C","D","E","F","G","H","I","J","K","L","M","N","O","P","Q","R","S","T","U","V","W","X","Y","Z">>
IsLower(c) == \E i \in 1..26 : Lower[i] = c
IsUpper(c) == \E i \in 1..26 : Upper[i] = c
IsAlpha(c) == IsLower(c) \/ IsUpper(c)
LowerCh(c) == IF IsUpper(c) THEN Lower[CHOOSE i \in 1..26 : Upper[i] = c] ELSE c
IsAlnum(c) == IsAlpha(c) \/ IsDigit(c)
IsBlank(c) == c = " " \/ c = "\t" \/ c = "\n" \/ c = "\r"

RECURSIVE ToLowerStr(_)
ToLowerStr(s) == IF Len(s) = 0 THEN "" ELSE LowerCh(Ch(s, 1)) \o ToLowerStr(DropPrefix(s, 1))

RECURSIVE TrimLeft(_)
TrimLeft(s) == IF Len(s) > 0 /\ IsBlank(Ch(s, 1)) THEN TrimLeft(DropPrefix(s, 1)) ELSE s
RECURSIVE TrimRight(_)
TrimRight(s) == IF Len(s) > 0 /\ IsBlank(Ch(s, Len(s))) THEN TrimRight(DropSuffix(s, 1)) ELSE s
TrimSpace(s) == TrimRight(TrimLeft(s))

RECURSIVE TrimRightCh(_, _)
TrimRightCh(s, c) == IF Len(s) > 0 /\ Ch(s, Len(s)) = c THEN TrimRightCh(DropSuffix(s, 1), c) ELSE s
RECURSIVE TrimLeftCh(_, _)
TrimLeftCh(s, c) == IF Len(s) > 0 /\ Ch(s, 1) = c THEN TrimLeftCh(DropPrefix(s, 1), c) ELSE s

(* Wildcard matching of one path segment: '*' = any run of characters,    *)
(* '?' = any one character, everything else literal.                       *)
RECURSIVE WildMatch(_, _)
WildMatch(p, s) ==
  IF Len(p) = 0 THEN Len(s) = 0
  ELSE LET c == Ch(p, 1) IN
       IF c = "*" THEN \/ WildMatch(DropPrefix(p, 1), s)
                       \/ (Len(s) > 0 /\ WildMatch(p, DropPrefix(s, 1)))
       ELSE IF c = "?" THEN Len(s) > 0 /\ WildMatch(DropPrefix(p, 1), DropPrefix(s, 1))
       ELSE Len(s) > 0 /\ Ch(s, 1) = c /\ WildMatch(DropPrefix(p, 1), DropPrefix(s, 1))

(* Full-path glob matching in the syntax of gobwas/glob with "/" as separator (what fileglob compiles):  *)
(*   *      any run of non-separator characters          **     any run of characters                     *)
(*   ?      one non-separator character                  [abc] [a-z] [!x]  one non-separator character    *)
(*   {a,b}  alternatives (patterns)                      \\x    the character x literally                    *)
RECURSIVE FindClose(_, _, _, _)
FindClose(p, i, open, close) ==           \* index of the matching close character from position i (depth 0), 0 if none
  IF i > Len(p) THEN 0
  ELSE IF Ch(p, i) = "\\" THEN FindClose(p, i + 2, open, close)
  ELSE IF Ch(p, i) = close THEN i
  ELSE FindClose(p, i + 1, open, close)

RECURSIVE SplitAlt(_, _, _, _)
SplitAlt(body, i, cur, acc) ==            \* split the inside of {...} on top-level commas
  IF i > Len(body) THEN Append(acc, cur)
  ELSE IF Ch(body, i) = "," THEN SplitAlt(body, i + 1, "", Append(acc, cur))
  ELSE SplitAlt(body, i + 1, cur \o Ch(body, i), acc)

Ord(c) == IndexOf(AsciiTable, c)
RECURSIVE ClassHasR(_, _, _)
ClassHasR(body, i, c) ==                   \* body: the inside of [...] without a leading '!': single characters and x-y ranges
  IF i > Len(body) THEN FALSE
  ELSE IF i + 2 <= Len(body) /\ Ch(body, i + 1) = "-"
       THEN (Ord(Ch(body, i)) <= Ord(c) /\ Ord(c) <= Ord(Ch(body, i + 2))) \/ ClassHasR(body, i + 3, c)
       ELSE Ch(body, i) = c \/ ClassHasR(body, i + 1, c)
ClassHas(body, c) == ClassHasR(body, 1, c)

RECURSIVE GlobMatch(_, _)
GlobMatch(p, s) ==
  IF Len(p) = 0 THEN Len(s) = 0
  ELSE LET c == Ch(p, 1) IN
       IF c = "*" THEN
          (IF Len(p) >= 2 /\ Ch(p, 2) = "*"
           THEN \/ GlobMatch(DropPrefix(p, 2), s)
                \/ (Len(s) > 0 /\ GlobMatch(p, DropPrefix(s, 1)))
           ELSE \/ GlobMatch(DropPrefix(p, 1), s)
                \/ (Len(s) > 0 /\ Ch(s, 1) # "/" /\ GlobMatch(p, DropPrefix(s, 1))))
       ELSE IF c = "?" THEN Len(s) > 0 /\ Ch(s, 1) # "/" /\ GlobMatch(DropPrefix(p, 1), DropPrefix(s, 1))
       ELSE IF c = "[" THEN
          (LET close == FindClose(p, 2, "[", "]") IN
           IF close = 0 THEN Len(s) > 0 /\ Ch(s, 1) = "[" /\ GlobMatch(DropPrefix(p, 1), DropPrefix(s, 1))
           ELSE LET body0 == SubSeq(p, 2, close - 1)
                    neg == Len(body0) > 0 /\ Ch(body0, 1) = "!"
                    body == IF neg THEN DropPrefix(body0, 1) ELSE body0
                IN Len(s) > 0 /\ Ch(s, 1) # "/" /\ (ClassHas(body, Ch(s, 1)) # neg)
                   /\ GlobMatch(DropPrefix(p, close), DropPrefix(s, 1)))
       ELSE IF c = "{" THEN
          (LET close == FindClose(p, 2, "{", "}") IN
           IF close = 0 THEN Len(s) > 0 /\ Ch(s, 1) = "{" /\ GlobMatch(DropPrefix(p, 1), DropPrefix(s, 1))
           ELSE LET alts == SplitAlt(SubSeq(p, 2, close - 1), 1, "", <<>>)
                    rest == DropPrefix(p, close)
                IN \E i \in 1..Len(alts) : GlobMatch(alts[i] \o rest, s))
       ELSE IF c = "\\" /\ Len(p) >= 2 THEN Len(s) > 0 /\ Ch(s, 1) = Ch(p, 2) /\ GlobMatch(DropPrefix(p, 2), DropPrefix(s, 1))
       ELSE Len(s) > 0 /\ Ch(s, 1) = c /\ GlobMatch(DropPrefix(p, 1), DropPrefix(s, 1))

\* (an escaped character is static text: a pattern made of text and escapes only has no matcher)
HasWild(p) == \E m \in {"*", "?", "[", "{"} : Contains(p, m)

\* sequence helpers
SeqToSet(q) == { q[i] : i \in 1..Len(q) }
Last(q) == q[Len(q)]
Front(q) == SubSeq(q, 1, Len(q) - 1)
=============================================================================
