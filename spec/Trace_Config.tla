---------------------------- MODULE Trace_Config ----------------------------
(***************************************************************************)
(* Trace validation of the Config machine: `get` / `getcontents` /         *)
(* `validate` (C13), `ver` / `cmp` (C14), `probe` / `expand` / `pass`      *)
(* (C16).  Each event is one API-level observation of the real code.       *)
(***************************************************************************)
EXTENDS Config, Json, TLC, FiniteSets

Trace == ndJsonDeserialize("trace.ndjson")

VARIABLES l, cid, viol, drift, merr, ncases
vars == <<l, cid, viol, drift, merr, ncases>>

IsEv(e) == l <= Len(Trace) /\ Trace[l].ev = e /\ l' = l + 1
TraceInit == l = 1 /\ cid = 0 /\ viol = {} /\ drift = {} /\ merr = {} /\ ncases = 0

Cap == 400
Rec(req, doc, me) ==
  /\ viol' = IF Cardinality(viol) >= Cap THEN viol ELSE viol \cup { <<cid, l, n>> : n \in req }
  /\ drift' = IF Cardinality(drift) >= Cap THEN drift ELSE drift \cup { <<cid, l, n>> : n \in doc }
  /\ merr' = merr \cup { <<cid, l, n>> : n \in me }

TraceCase == IsEv("case") /\ cid' = Trace[l].id /\ ncases' = ncases + 1 /\ UNCHANGED <<viol, drift, merr>>
TraceEnd == IsEv("endcase") /\ UNCHANGED <<cid, viol, drift, merr, ncases>>

Cl(cond, name) == IF cond THEN {} ELSE {name}

(* ---- C13 ------------------------------------------------------------------ *)
TraceGet ==
  /\ IsEv("get")
  /\ LET e == Trace[l]
         k == e.kind
         isMap == k = "map"
         expF == IF isMap THEN EffectiveMap(e.base, e.ovf, e.ovstate) ELSE Effective(e.leaf, k, e.base, e.ovf, e.ovstate)
         expG == IF isMap THEN EffectiveMap(e.base, e.ovg, "set") ELSE Effective(e.leaf, k, e.base, e.ovg, "set")
         expH == IF isMap THEN MapSet(e.base) ELSE EffBase(e.leaf, k, e.base)
         o(x) == IF isMap THEN MapSet(x) ELSE x
     IN Rec(Cl(e.err = "", "C13.valid_document_parses")
            \cup (IF e.err # "" THEN {} ELSE
                  Cl(o(e.obs) = expF, "C13.override_exactness")
                  \cup Cl(o(e.obsg) = expG, "C13.override_applies")
                  \cup Cl(o(e.obsh) = expH, "C13.no_block_gets_base")
                  \cup Cl(o(e.obs2) = o(e.obs), "C13.get_is_repeatable")), {}, {})
  /\ UNCHANGED <<cid, ncases>>

TraceGetContents ==
  /\ IsEv("getcontents")
  /\ LET e == Trace[l]
         sel == IF e.ovstate = "set" THEN e.ovf ELSE e.base
     IN Rec(IF e.err # "" THEN {"C13.valid_document_parses"} ELSE
            Cl(FilterFor(e.obs, e.fmt) = FilterFor(sel, e.fmt), "C13.contents_wholesale")
            \cup Cl(FilterFor(e.obsh, e.h) = FilterFor(e.base, e.h), "C13.no_block_gets_base"),
            IF e.err = "" /\ e.ovstate # "noblock" /\ e.obs # FilterFor(sel, e.fmt) THEN {"DOC.get_filters_foreign_entries"} ELSE {}, {})
  /\ UNCHANGED <<cid, ncases>>

TraceValidate ==
  /\ IsEv("validate")
  /\ LET e == Trace[l] IN
     Rec(Cl(e.registered <=> e.err = "", "C13.validate_rejects_unregistered_override"), {}, {})
  /\ UNCHANGED <<cid, ncases>>

(* ---- C14 ------------------------------------------------------------------ *)
CfgOf(c) == c   \* verTuple records carry exactly the fields the Version operators read

TraceVer ==
  /\ IsEv("ver")
  /\ LET e == Trace[l]  c == e.cfg  o == e.obs  v == EffVersion(c)
         archCl == IF o.arch = ArchVersion(c) THEN {}
                   ELSE IF o.arch = ArchVersionAsIs(c) THEN {"DOC.archlinux_pkgver@ArchPrereleaseNeedsEpoch"} ELSE {"C14.version_string.archlinux"}
     IN Rec(IF o.err # "" THEN {"C14.version_builds"} ELSE
            Cl(o.split.version = v.version, "C14.split_version")
            \cup Cl(o.split.pre = v.pre, "C14.split_prerelease")
            \cup Cl(o.split.meta = v.meta, "C14.split_metadata")
            \cup Cl(o.deb = DebVersion(c), "C14.version_string.deb")
            \cup Cl(o.ipk = DebVersion(c), "C14.version_string.ipk")
            \cup Cl(o.rpm.version = RpmVersion(c) /\ o.rpm.release = RpmRelease(c)
                    /\ o.rpm.epoch = (IF c.epoch = "" THEN "" ELSE NormNum(c.epoch)), "C14.version_string.rpm")
            \cup Cl(o.apk = ApkVersion(c), "C14.version_string.apk")
            \cup { x \in archCl : ~HasPrefix(x, "DOC.") },
            { x \in (IF o.err # "" THEN {} ELSE archCl) : HasPrefix(x, "DOC.") }, {})
  /\ UNCHANGED <<cid, ncases>>

Sign(n) == IF n < 0 THEN "lt" ELSE IF n > 0 THEN "gt" ELSE "eq"
RpmEvr(o) == [epoch |-> o.rpm.epoch, version |-> o.rpm.version, release |-> o.rpm.release]

TraceCmp ==
  /\ IsEv("cmp")
  /\ LET e == Trace[l]
         d == DebCmp(e.a.deb, e.b.deb)
         di == DebCmp(e.a.ipk, e.b.ipk)
         r == RpmEvrCmp(RpmEvr(e.a), RpmEvr(e.b))
         rs == IF e.rpmcmp < 0 THEN "lt" ELSE IF e.rpmcmp > 0 THEN "gt" ELSE "eq"
     IN Rec(Cl(d < 0, "C14." \o e.kind \o ".deb")
            \cup Cl(di < 0, "C14." \o e.kind \o ".ipk")
            \cup Cl(r < 0, "C14." \o e.kind \o ".rpm"),
            {},
            \* the transcriptions of the comparison algorithms agree with dpkg itself / the independent port
            (IF e.dpkg # "na" /\ Sign(d) # e.dpkg THEN {"DebCmp_disagrees_with_dpkg"} ELSE {})
            \cup (IF e.dpkg_ipk # "na" /\ Sign(di) # e.dpkg_ipk THEN {"DebCmp_disagrees_with_dpkg"} ELSE {})
            \cup (IF Sign(r) # rs THEN {"RpmCmp_disagrees_with_port"} ELSE {}))
  /\ UNCHANGED <<cid, ncases>>

(* the version is split AFTER environment expansion (parse: expand, then defaults) *)
TraceExpandSplit ==
  /\ IsEv("expandsplit")
  /\ LET e == Trace[l]
         c == [version |-> ExpandStr(e.version, e.env), schema |-> "", prerelease |-> ExpandStr(e.prerelease, e.env),
               metadata |-> e.metadata]     \* version_metadata is not among the documented expandable fields: used as written
         v == EffVersion(c)
     IN Rec(IF e.err # "" THEN {"C14.valid_document_parses"} ELSE
            Cl(e.obs.version = v.version /\ e.obs.pre = v.pre /\ e.obs.meta = v.meta, "C14.expanded_version_is_split"), {}, {})
  /\ UNCHANGED <<cid, ncases>>

(* ---- C16 ------------------------------------------------------------------ *)
TraceProbe ==
  /\ IsEv("probe")
  /\ LET e == Trace[l] IN
     \* every entry point (a reader; a file path, whether the file is called .yaml or .json) is the same strict parser
     Rec((IF e.kind = "unknown" THEN Cl(~e.accepted /\ ~e.accepted_file_any, "C16.unknown_key_rejected")
          ELSE Cl(e.accepted /\ e.accepted_file_all, "C16.defined_key_accepted"))
         \cup Cl(e.file_same, "C16.file_and_reader_entry_points_agree"), {}, {})
  /\ UNCHANGED <<cid, ncases>>

TraceExpand ==
  /\ IsEv("expand")
  /\ LET e == Trace[l]
         hasDollar == Contains(e.raw, "$")
         isC == IsContentSrcDst(e.path)
         isList == e.kind = "list"
         rawSeq == IF isList THEN <<e.raw, "keep-me">> ELSE <<e.raw>>
         \* (the lists that take part in expansion are trimmed item by item and lose their empty items also when nothing
         \* is expanded; every other list is left exactly as written)
         processed == DocumentedExpandable(e.path) \/ (StripOverride(e.path) = e.path /\ e.path \in AsIsAlsoExpanded)
         asWritten == IF isList /\ processed THEN TrimList(rawSeq) ELSE rawSeq
         expanded == IF isList THEN ExpandList(rawSeq, e.env)
                     ELSE IF isC THEN <<TrimSpace(ExpandStr(e.raw, e.env))>> ELSE Defaulted(e.path, <<ExpandStr(e.raw, e.env)>>)
         documented == DocumentedExpandable(e.path)
         req ==
           IF e.err # "" THEN {"C16.valid_document_parses"}
           ELSE IF isC THEN
                  (IF e.opt = "true" THEN Cl(e.obs = expanded, "C16.content_expand_opt_in")
                   ELSE Cl(e.obs = <<e.raw>>, "C16.content_expand_opt_in_only"))
           ELSE IF ~hasDollar THEN Cl(e.obs = asWritten, "C16.no_dollar_unchanged")
           ELSE IF documented THEN Cl(e.obs = expanded, IF isList THEN "C16.list_expanded_trimmed_dropped" ELSE "C16.documented_field_expanded")
           \* outside the documented fields and the as-is list nothing is expanded: the value stays as written
           ELSE IF StripOverride(e.path) \notin AsIsAlsoExpanded /\ StripOverride(e.path) = e.path
                THEN Cl(~(e.obs = expanded /\ expanded # asWritten), "C16.expansion_stays_within_its_scope")
           ELSE {}
         doc == IF e.err = "" /\ ~isC /\ hasDollar /\ ~documented /\ e.obs = expanded /\ expanded # asWritten
                THEN {"DOC.undocumented_field_expanded:" \o StripOverride(e.path)} ELSE {}
         me == IF e.err = "" /\ ~isC /\ hasDollar /\ ~documented /\ e.obs # expanded /\ e.obs # asWritten /\ e.obs # rawSeq
               THEN {"expand_neither_raw_nor_expanded"} ELSE {}
     IN Rec(req, doc, {})
  /\ UNCHANGED <<cid, ncases>>

TracePass ==
  /\ IsEv("pass")
  /\ LET e == Trace[l] IN
     Rec(IF e.err # "" THEN {"C16.valid_document_parses"} ELSE
         Cl(e.deb = Passphrase(e.env, "DEB"), "C16.passphrase_precedence.deb")
         \cup Cl(e.rpm = Passphrase(e.env, "RPM"), "C16.passphrase_precedence.rpm")
         \cup Cl(e.apk = Passphrase(e.env, "APK"), "C16.passphrase_precedence.apk"), {}, {})
  /\ UNCHANGED <<cid, ncases>>

TraceEof ==
  /\ IsEv("eof")
  /\ PrintT(<<"VIOLSET", ToJson(viol)>>)
  /\ PrintT(<<"DRIFTSET", ToJson(drift)>>)
  /\ PrintT(<<"MERRSET", ToJson(merr)>>)
  /\ PrintT(<<"NCASES", ncases>>)
  /\ TLCSet(1, l)
  /\ UNCHANGED <<cid, viol, drift, merr, ncases>>

TraceNext == TraceCase \/ TraceEnd \/ TraceExpandSplit \/ TraceGet \/ TraceGetContents \/ TraceValidate \/ TraceVer \/ TraceCmp
             \/ TraceProbe \/ TraceExpand \/ TracePass \/ TraceEof
TraceSpec == TraceInit /\ [][TraceNext]_vars
HighWater == TLCSet(2, l)
Accepted == TLCGet(1) = Len(Trace)
=============================================================================
