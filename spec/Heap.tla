-------------------------------- MODULE Heap --------------------------------
(***************************************************************************)
(* C11 / C12: the object graph reachable from one parsed Config and the    *)
(* reads and in-place writes of the operations performed on it.            *)
(*                                                                         *)
(* Shared cells (one per field of an object the Infos returned by Get      *)
(* still point into): the file_info of content entries (owner, mode), the  *)
(* *string key id, a custom-field map entry.  A packaging process of       *)
(* format f runs                                                           *)
(*     Get(f) ; for each cell: Test (read: unset?) ; Set (write default)   *)
(*            ; for each cell: Ser (read for output)                       *)
(* The intended design works on private copies (CopyFileInfoOnPrepare,     *)
(* ClonePointersOnGet); the as-is model of the pinned tree wrote the       *)
(* defaults and the override's key id into the SHARED cells.               *)
(*                                                                         *)
(* Steps are interleaved arbitrarily (C12: all schedules); the sequential  *)
(* configuration (C11: all histories) is the sub-behaviour in which a      *)
(* process runs to completion before the next starts - checked with the    *)
(* Sequential constraint.                                                  *)
(***************************************************************************)
EXTENDS Integers, Sequences, FiniteSets, TLC

CONSTANTS Procs,                  \* process ids
          FmtOf,                  \* process -> format
          Cells,                  \* sequence of shared cells
          CopyFileInfoOnPrepare, ClonePointersOnGet,
          SequentialOnly

Range(s) == { s[i] : i \in 1..Len(s) }

(* per-format default written into an unset cell (umask / mtime / key-id overrides differ per format) *)
Default(f, c) == <<"default", f, c>>
Unset == <<"unset">>
InitVal(c) == IF c = "unsetA" \/ c = "unsetB" THEN Unset ELSE <<"declared", c>>
IsPtrCell(c) == c = "keyid"

VARIABLES shared, priv, pc, idx, seen
vars == <<shared, priv, pc, idx, seen>>
(* pc[p] in {"get", "test", "set", "ser", "done"}; idx[p]: position in Cells *)

Init == /\ shared = [c \in Range(Cells) |-> InitVal(c)]
        /\ priv = [p \in Procs |-> [c \in Range(Cells) |-> <<"none">>]]
        /\ pc = [p \in Procs |-> "get"] /\ idx = [p \in Procs |-> 1]
        /\ seen = [p \in Procs |-> <<>>]

UsesPrivate(c) == IF IsPtrCell(c) THEN ClonePointersOnGet ELSE CopyFileInfoOnPrepare

(* Get(f): copies; with ClonePointersOnGet the pointee is cloned, otherwise the override is merged THROUGH the pointer *)
Get(p) ==
  /\ pc[p] = "get"
  /\ priv' = [priv EXCEPT ![p] = [c \in Range(Cells) |-> IF UsesPrivate(c) THEN shared[c] ELSE <<"none">>]]
  /\ shared' = IF ~ClonePointersOnGet /\ "keyid" \in Range(Cells) /\ FmtOf[p] \in {"rpm"}
               THEN [shared EXCEPT !["keyid"] = <<"override", FmtOf[p]>>] ELSE shared
  /\ pc' = [pc EXCEPT ![p] = "test"] /\ UNCHANGED <<idx, seen>>

Cur(p) == Cells[idx[p]]
Val(p, c) == IF UsesPrivate(c) THEN priv[p][c] ELSE shared[c]

Test(p) ==
  /\ pc[p] = "test"
  /\ IF Val(p, Cur(p)) = Unset THEN pc' = [pc EXCEPT ![p] = "set"] /\ UNCHANGED idx
     ELSE IF idx[p] < Len(Cells) THEN idx' = [idx EXCEPT ![p] = @ + 1] /\ UNCHANGED pc
     ELSE pc' = [pc EXCEPT ![p] = "ser"] /\ idx' = [idx EXCEPT ![p] = 1]
  /\ UNCHANGED <<shared, priv, seen>>

Set(p) ==
  /\ pc[p] = "set"
  /\ LET c == Cur(p)  v == Default(FmtOf[p], c) IN
     IF UsesPrivate(c) THEN priv' = [priv EXCEPT ![p][c] = v] /\ UNCHANGED shared
     ELSE shared' = [shared EXCEPT ![c] = v] /\ UNCHANGED priv
  /\ IF idx[p] < Len(Cells) THEN idx' = [idx EXCEPT ![p] = @ + 1] /\ pc' = [pc EXCEPT ![p] = "test"]
     ELSE pc' = [pc EXCEPT ![p] = "ser"] /\ idx' = [idx EXCEPT ![p] = 1]
  /\ UNCHANGED seen

Ser(p) ==
  /\ pc[p] = "ser"
  /\ seen' = [seen EXCEPT ![p] = Append(@, Val(p, Cur(p)))]
  /\ IF idx[p] < Len(Cells) THEN idx' = [idx EXCEPT ![p] = @ + 1] /\ UNCHANGED pc
     ELSE pc' = [pc EXCEPT ![p] = "done"] /\ UNCHANGED idx
  /\ UNCHANGED <<shared, priv>>

Running(p) == pc[p] \notin {"get", "done"}
Step(p) == Get(p) \/ Test(p) \/ Set(p) \/ Ser(p)
Next == \E p \in Procs :
           /\ (SequentialOnly => \A q \in Procs \ {p} : ~Running(q))
           /\ Step(p)
Spec == Init /\ [][Next]_vars

(* what a packaging of format f reads from a FRESHLY parsed configuration *)
Expected(f) ==
  [i \in 1..Len(Cells) |->
     LET c == Cells[i] IN
     IF IsPtrCell(c) THEN (IF f = "rpm" /\ ~ClonePointersOnGet THEN <<"override", f>> ELSE InitVal(c))
     ELSE IF InitVal(c) = Unset THEN Default(f, c) ELSE InitVal(c)]
ExpectedIntended(f) ==
  [i \in 1..Len(Cells) |-> LET c == Cells[i] IN IF InitVal(c) = Unset THEN Default(f, c) ELSE InitVal(c)]

(* C11: every produced package equals the one from a fresh copy; the configuration is unchanged *)
OutEqualsFresh == \A p \in Procs : pc[p] = "done" => seen[p] = ExpectedIntended(FmtOf[p])
ConfigUnchanged == shared = [c \in Range(Cells) |-> InitVal(c)]

(* C12: no two processes have enabled conflicting accesses to the same shared cell *)
Access(p) ==   \* the shared-cell accesses process p can perform next: <<cell, isWrite>>
  CASE pc[p] = "get" -> (IF ~ClonePointersOnGet /\ "keyid" \in Range(Cells)
                         THEN {<<"keyid", FmtOf[p] = "rpm">>} ELSE {})
                        \cup { <<c, FALSE>> : c \in { x \in Range(Cells) : UsesPrivate(x) } }
    [] pc[p] = "test" -> (IF UsesPrivate(Cur(p)) THEN {} ELSE {<<Cur(p), FALSE>>})
    [] pc[p] = "set" -> (IF UsesPrivate(Cur(p)) THEN {} ELSE {<<Cur(p), TRUE>>})
    [] pc[p] = "ser" -> (IF UsesPrivate(Cur(p)) THEN {} ELSE {<<Cur(p), FALSE>>})
    [] OTHER -> {}
RaceFree == \A p, q \in Procs : p # q =>
              \A a \in Access(p), b \in Access(q) : ~(a[1] = b[1] /\ (a[2] \/ b[2]))
=============================================================================
