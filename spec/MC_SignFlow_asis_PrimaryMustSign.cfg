SPECIFICATION Spec
CONSTANTS SignDeviations = {"PrimaryMustSign"}
INVARIANTS ValidSetupBuilds
CHECK_DEADLOCK FALSE
