------------------------------ MODULE KeyHist ------------------------------
(***************************************************************************)
(* C10 over histories: within ONE process the key file at a fixed path is  *)
(* written (key A, key B), removed, and packages are built in between.     *)
(* Every package is signed with the key that is in the file WHEN IT IS     *)
(* BUILT; with no file there is no package.  Nothing a packaging has seen  *)
(* (a key it loaded, a signer it set up) outlives it.                      *)
(*                                                                         *)
(* TLC checks the invariant on every history up to MaxOps operations       *)
(* (MC_KeyHist.cfg), shows that the deviation "KeyCached" (the first key   *)
(* loaded is kept) violates it (MC_KeyHist_asis.cfg) and exports every     *)
(* history that ends in a packaging (MC_KeyHist_export.cfg); the harness   *)
(* replays each on the real packagers with two keys it generates itself.   *)
(***************************************************************************)
EXTENDS Integers, Sequences, FiniteSets, TLC, Json

CONSTANTS HistDeviations, MaxOps

Fmts == {"debsign", "dpkg-sig", "rpm", "apk"}
Keys == {"A", "B"}

VARIABLES fmt, file, cache, hist
vars == <<fmt, file, cache, hist>>
(* file, cache: "none" | "A" | "B"; hist: what was done, and for a packaging what came out and what the file held *)

Init == fmt \in Fmts /\ file = "none" /\ cache = "none" /\ hist = <<>>

More == Len(hist) < MaxOps

Write(k) == /\ More /\ file' = k
            /\ hist' = Append(hist, [op |-> "write" \o k, signer |-> "", held |-> k])
            /\ UNCHANGED <<fmt, cache>>
Remove == /\ More /\ file # "none" /\ file' = "none"
          /\ hist' = Append(hist, [op |-> "remove", signer |-> "", held |-> "none"])
          /\ UNCHANGED <<fmt, cache>>
Package ==
  /\ More
  /\ LET used == IF "KeyCached" \in HistDeviations /\ cache # "none" THEN cache ELSE file IN
     /\ hist' = Append(hist, [op |-> "package", signer |-> (IF used = "none" THEN "failure" ELSE used), held |-> file])
     /\ cache' = IF cache = "none" THEN file ELSE cache
  /\ UNCHANGED <<fmt, file>>

Next == (\E k \in Keys : Write(k)) \/ Remove \/ Package
Spec == Init /\ [][Next]_vars

TypeOK == file \in Keys \cup {"none"} /\ cache \in Keys \cup {"none"} /\ Len(hist) <= MaxOps

SignedWithTheKeyInTheFile ==
  \A i \in 1..Len(hist) : hist[i].op = "package" =>
     hist[i].signer = (IF hist[i].held = "none" THEN "failure" ELSE hist[i].held)

ExportBehaviours ==
  (Len(hist) = MaxOps /\ hist[MaxOps].op = "package") =>
     PrintT(<<"KEYHIST", ToJson([fmt |-> fmt, ops |-> [i \in 1..Len(hist) |-> hist[i].op], signers |-> [i \in 1..Len(hist) |-> hist[i].signer]])>>)
=============================================================================
