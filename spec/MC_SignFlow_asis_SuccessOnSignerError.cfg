SPECIFICATION Spec
CONSTANTS SignDeviations = {"SuccessOnSignerError"}
INVARIANTS BuiltMeansSigned
CHECK_DEADLOCK FALSE
