---------------------------- MODULE Trace_Repro ----------------------------
(***************************************************************************)
(* Replays a recorded history of environment changes and builds of one     *)
(* case through Repro.tla and checks Function on the recorded output       *)
(* hashes: every `build` of the same (case, format) must carry the hash of *)
(* the first one made from the same version of the sources (an            *)
(* `envchange sources` step is Repro!ChangeSources: the builds after it,   *)
(* in the process that built before it and in fresh ones, must agree).     *)
(***************************************************************************)
EXTENDS Integers, Sequences, FiniteSets, TLC, Json

Trace == ndJsonDeserialize("trace.ndjson")
VARIABLES l, cid, first, env, viol, drift, merr, ncases
vars == <<l, cid, first, env, viol, drift, merr, ncases>>
IsEv(e) == l <= Len(Trace) /\ Trace[l].ev = e /\ l' = l + 1
E0 == [clock |-> 0, tz |-> "UTC", procs |-> 16, style |-> "abs", pid |-> 0, src |-> 0]
TraceInit == l = 1 /\ cid = 0 /\ first = [x \in {} |-> ""] /\ env = E0 /\ viol = {} /\ drift = {} /\ merr = {} /\ ncases = 0

TraceCase == /\ IsEv("case") /\ cid' = Trace[l].id /\ first' = [x \in {} |-> ""] /\ env' = E0 /\ ncases' = ncases + 1
             /\ UNCHANGED <<viol, drift, merr>>
TraceEnd == IsEv("endcase") /\ UNCHANGED <<cid, first, env, viol, drift, merr, ncases>>

(* Tick / SetTZ / SetProcs / SwitchStyle / NewProcess / ChangeSources of Repro.tla, with the logged new value *)
TraceEnv ==
  /\ IsEv("envchange")
  /\ LET e == Trace[l] IN
     env' = CASE e.what = "tick" -> [env EXCEPT !.clock = @ + 1]
              [] e.what = "tz" -> [env EXCEPT !.tz = e.value]
              [] e.what = "procs" -> [env EXCEPT !.procs = e.n]
              [] e.what = "style" -> [env EXCEPT !.style = e.value]
              [] e.what = "process" -> [env EXCEPT !.pid = @ + 1]
              [] e.what = "sources" -> [env EXCEPT !.src = @ + 1]
  \* Function relates builds of the same format AND the same version of the sources
  /\ first' = IF Trace[l].what = "sources" THEN [x \in {} |-> ""] ELSE first
  /\ UNCHANGED <<cid, viol, drift, merr, ncases>>

TraceBuild ==
  /\ IsEv("build")
  /\ LET e == Trace[l] IN
     /\ merr' = IF e.err # "" THEN merr \cup {<<cid, l, "build_failed">>} ELSE merr
     /\ IF e.err # "" THEN UNCHANGED <<first, viol>>
        ELSE IF e.fmt \in DOMAIN first
             THEN /\ viol' = IF first[e.fmt] = e.sha256 \/ Cardinality(viol) > 300 THEN viol ELSE viol \cup {<<cid, l, "C07.bytes_equal">>}
                  /\ UNCHANGED first
             ELSE /\ first' = [x \in (DOMAIN first) \cup {e.fmt} |-> IF x = e.fmt THEN e.sha256 ELSE first[x]]
                  /\ UNCHANGED viol
  /\ UNCHANGED <<cid, env, drift, ncases>>

TraceEof ==
  /\ IsEv("eof")
  /\ PrintT(<<"VIOLSET", ToJson(viol)>>) /\ PrintT(<<"DRIFTSET", ToJson(drift)>>) /\ PrintT(<<"MERRSET", ToJson(merr)>>)
  /\ PrintT(<<"NCASES", ncases>>) /\ TLCSet(1, l)
  /\ UNCHANGED <<cid, first, env, viol, drift, merr, ncases>>

TraceNext == TraceCase \/ TraceEnd \/ TraceEnv \/ TraceBuild \/ TraceEof
TraceSpec == TraceInit /\ [][TraceNext]_vars
HighWater == TLCSet(2, l)
Accepted == TLCGet(1) = Len(Trace)
=============================================================================
